"""C04 - page tree: depth-first Kids order, inheritance from the nearest ancestor, Rotate in 0..359, the MediaBox
landing on the (0,0)-origin page turned clockwise by Rotate, selection by page_numbers / maxpages, termination on
cyclic / repeated Kids.

A. TLC enumerates every document graph up to the configured size (specs/pages/PageTree.tla: cycles, repeats, all
   placements of the attributes in play, page_numbers x maxpages) and every MediaBox x Rotate x marker of the
   geometry domain (PageGeom.tla), checking the C04 invariants in every state.  Every terminal state is realised as
   a real PDF (harness/realise/pagetree.py, two physical variants) and PDFPage.create_pages / get_pages,
   extract_pages (LTPage.bbox, the marker glyph's matrix and font) and extract_text are compared with the
   specification's reference result (intended) and the machine's result (as coded, with the named deviations).
B. the same calls recorded on the repository's samples and on large generated documents are validated by TLC
   against PageTreeTrace.tla / PageGeomTrace.tla.
"""
from __future__ import annotations

import glob
import json
import logging
import os
import random
import re
import signal
import sys
from io import BytesIO

from ..core import unjson
from ..deviations import active, tla_set
from ..tlc import MachineryError, SPECS, require_coverage, run_tlc, write_cfg
from ..realise import pagetree as RT
from ..observe import pagetree as OB

TREE_SPEC = os.path.join(SPECS, "pages", "MC_PageTree.tla")
GEOM_SPEC = os.path.join(SPECS, "pages", "MC_PageGeom.tla")
TREE_TRACE = os.path.join(SPECS, "pages", "PageTreeTrace.tla")
GEOM_TRACE = os.path.join(SPECS, "pages", "PageGeomTrace.tla")

TREE_DEVS = ("ContinueSkipsMax", "CatalogInherits")
GEOM_DEVS = ("BoxAsWritten", "RealRotateIgnored", "CropNotClipped")
EXT_DEVS = ("RealRotateIgnored", "CropNotClipped")     # outside C04's statement: differences are NOTE lines (extended coverage)
TREE_ACTIONS = ["AReveal", "ASkipVisited", "AEnterPages", "AEnterPage", "AEnterOther", "ALoopKid", "ALoopEnd",
                "ASelSkip", "ASelYield"]
GEOM_ACTIONS = ["AParseBox", "AParseCrop", "AParseRotate", "AAddRotation", "ACtm90", "ACtm180", "ACtm270", "ACtmElse", "ABeginPage", "ARenderMark"]
TREE_INVARIANTS = ["TypeOK", "DFSOrder", "NearestAncestor", "VisitedOnce", "Selection", "SelectionSane", "LoopShape", "LabelByIndex"]
ALLK = '{"Pages", "Page", "Other"}'

PLAIN = dict(RForms="<- IntOnly", UserUnits="<- NoUnit", Crops="<- NoCrop", Rotations="<- NoRotation")
GEOM_CONFIGS = {
    "quick": [dict(name="boxes", Xs="<- XsSmall", Ys="<- YsSmall", Ws="{2, 3}", Hs="{2, 5}", Orders="<- OrdersAll",
                   Rotates="<- RotatesSmall", Marks="<- MarksSmall", **PLAIN),
              # Rotate written as a real number, /UserUnit, /CropBox inside / beyond the MediaBox
              dict(name="extras", Xs="<- XsTwo", Ys="<- YsOne", Ws="{2, 3}", Hs="{2}", Orders="<- OrdersPlain", Rotates="<- RotatesFew",
                   Marks="<- MarksOne", RForms="<- BothForms", UserUnits="<- Units", Crops="<- AllCrops", Rotations="<- NoRotation"),
              # extract_text_to_fp(rotation=...) x the page's own / inherited Rotate, MediaBox off the origin
              dict(name="rotation", Xs="<- XsOff", Ys="<- YsOne", Ws="{2, 3}", Hs="{2, 5}", Orders="<- OrdersPlain", Rotates="<- RotatesPlain",
                   Marks="<- MarksOne", RForms="<- IntOnly", UserUnits="<- NoUnit", Crops="<- NoCrop", Rotations="<- RotationArgs")],
    "thorough": [dict(name="boxes", Xs="<- XsFull", Ys="<- YsFull", Ws="{1, 2, 3}", Hs="{2, 4, 5}", Orders="<- OrdersAll",
                      Rotates="<- RotatesFull", Marks="<- MarksFull", **PLAIN),
                 dict(name="extras", Xs="<- XsSmall", Ys="<- YsSmall", Ws="{2, 3}", Hs="{2, 5}", Orders="<- OrdersAll", Rotates="<- RotatesSmall",
                      Marks="<- MarksOne", RForms="<- BothForms", UserUnits="<- Units", Crops="<- AllCrops", Rotations="<- NoRotation"),
                 dict(name="rotation", Xs="<- XsSmall", Ys="<- YsSmall", Ws="{2, 3}", Hs="{2, 5}", Orders="<- OrdersPlain", Rotates="<- RotatesSmall",
                      Marks="<- MarksOne", RForms="<- IntOnly", UserUnits="<- NoUnit", Crops="<- NoCrop", Rotations="<- RotationArgs")],
}


def tree_cfg(name, N, K, E, attrs, cat=(), root=ALLK, kinds=ALLK, back=True, pn="<- PN_None", mp="{0}", need=None, own="<- AllOwnSets"):
    return dict(name=name, N=N, K=K, E=E, attrs=tuple(attrs), cat=tuple(cat), root=root, kinds=kinds, back=back, pn=pn,
                mp=mp, need=need if need is not None else TREE_ACTIONS, own=own,
                inh=tuple(a for a in attrs if a in RT.INHERITABLE))


SEL_ACTIONS = ["AReveal", "AEnterPages", "AEnterPage", "ALoopKid", "ALoopEnd", "ASelSkip", "ASelYield"]
NOSEL = [a for a in TREE_ACTIONS if a != "ASelSkip"]
TREE_CONFIGS = {
    "quick": [
        tree_cfg("shapes", 5, 3, 4, ["Rotate"], need=NOSEL),
        tree_cfg("two-attrs", 4, 2, 3, ["MediaBox", "Resources"], need=NOSEL),
        tree_cfg("three-attrs-chain", 3, 1, 2, ["Resources", "MediaBox", "Rotate"], root='{"Pages"}', kinds='{"Pages", "Page"}',
                 need=[a for a in NOSEL if a != "AEnterOther"]),
        tree_cfg("catalog", 3, 2, 2, ["Rotate", "MediaBox"], cat=["Rotate", "MediaBox"], root='{"Pages", "Page"}', need=NOSEL),
        tree_cfg("select-flat", 7, 6, 6, [], root='{"Pages"}', kinds='{"Page"}', back=False, pn="<- PN_Sub6",
                 mp="{0, 1, 2, 3, 4, 5, 6, 7}", need=SEL_ACTIONS),
        tree_cfg("select-tree", 4, 3, 3, [], pn="<- PN_Sub3", mp="{0, 1, 2}"),
        tree_cfg("annots", 4, 2, 3, ["Rotate", "Annots"], root='{"Pages"}', kinds='{"Pages", "Page"}',
                 need=[a for a in NOSEL if a != "AEnterOther"]),
    ],
    "thorough": [
        tree_cfg("shapes", 6, 3, 5, ["Rotate"], need=NOSEL),
        tree_cfg("shapes-wide", 5, 4, 4, ["CropBox"], need=NOSEL),
        tree_cfg("two-attrs", 5, 3, 4, ["MediaBox", "Resources"], need=NOSEL),
        tree_cfg("two-attrs-b", 4, 3, 3, ["Rotate", "CropBox"], need=NOSEL),
        tree_cfg("four-attrs", 3, 2, 2, RT.INHERITABLE, root='{"Pages"}', need=NOSEL),
        tree_cfg("catalog", 4, 2, 3, ["Rotate", "MediaBox"], cat=["Rotate", "MediaBox"], root='{"Pages", "Page"}', need=NOSEL),
        tree_cfg("select-flat", 8, 7, 7, [], root='{"Pages"}', kinds='{"Page"}', back=False, pn="<- PN_Sub6",
                 mp="{0, 1, 2, 3, 4, 5, 6, 7, 8}", need=SEL_ACTIONS),
        tree_cfg("select-tree", 5, 3, 4, [], pn="<- PN_Sub3", mp="{0, 1, 2, 3, 4}"),
        tree_cfg("annots", 5, 2, 4, ["Rotate", "Annots"], root='{"Pages"}', kinds='{"Pages", "Page"}',
                 need=[a for a in NOSEL if a != "AEnterOther"]),
        # all four attributes on up to 5 nodes: a node carries none, Resources + MediaBox, CropBox + Rotate, or all four
        tree_cfg("four-attrs-5", 5, 2, 4, RT.INHERITABLE, root='{"Pages"}', kinds='{"Pages", "Page"}', own="<- PairOwnSets",
                 need=[a for a in NOSEL if a != "AEnterOther"]),
    ],
}
COVERAGE_ON = ("shapes", "catalog", "select-flat", "select-tree", "three-attrs-chain", "annots")   # quick tier: vacuity guard
SIMULATE = dict(N=6, K=4, E=8, attrs=RT.INHERITABLE, cat=RT.INHERITABLE, num=1000, depth=70)

logging.disable(logging.CRITICAL)      # pdfminer warns about every defaulted MediaBox


# ================================================================================================ helpers
class _Timeout(Exception):
    pass


class time_limit:
    """a limit on the CPU time the process itself spends (ITIMER_VIRTUAL): the verdict "does not terminate" must not
    depend on how busy the machine is"""

    def __init__(self, seconds):
        self.seconds = seconds

    def _fire(self, *a):
        raise _Timeout()

    def __enter__(self):
        self.old = signal.signal(signal.SIGVTALRM, self._fire)
        signal.setitimer(signal.ITIMER_VIRTUAL, self.seconds)

    def __exit__(self, *a):
        signal.setitimer(signal.ITIMER_VIRTUAL, 0)
        signal.signal(signal.SIGVTALRM, self.old)
        return False


def guarded(site, fn, findings, detail):
    """runs fn(); a failure to terminate or an exception is a finding at call site `site`"""
    old = sys.getrecursionlimit()
    try:
        with time_limit(20):
            return True, fn()
    except _Timeout:
        findings.append(("no-termination@" + site, "%s used more than 20 s of CPU time without returning on %s" % (site, detail)))
    except RecursionError:
        findings.append(("error:RecursionError@" + site, "%s exhausted the stack on %s" % (site, detail)))
    except Exception as e:      # noqa: BLE001 - every exception is a verdict about the code under test here
        findings.append(("error:%s@%s" % (type(e).__name__, site), "%s raised %r on %s" % (site, e, detail)))
    finally:
        sys.setrecursionlimit(old)
    return False, None


def scaled(seq, k=RT.SCALE):
    return tuple(float(k * v) for v in seq)


MAX_FILED = 150


def report(ck, key, what, replay):
    """ck.violation, but after MAX_FILED unknown violations the rest are only counted (a broken tree fails tens of
    thousands of replayed cases; one replay file each would fill the disk)"""
    if not ck.is_known(key) and len(ck.violations) >= MAX_FILED:
        ck.extra["violations_counted_but_not_filed"] = ck.extra.get("violations_counted_but_not_filed", 0) + 1
        return True
    return ck.violation(key, what, replay)


def known_keys(pid):
    import json as _json
    p = os.path.join(os.path.dirname(os.path.dirname(os.path.dirname(os.path.abspath(__file__)))), "known_findings", pid + ".json")
    try:
        return {e["key"] for e in _json.load(open(p)) if e.get("status") == "known"}
    except OSError:
        return set()


def note_extended(ck, key, what):
    """extended coverage (outside the property's statement): a counter per key, the first case of each as a NOTE"""
    ext = ck.extra.setdefault("extended_coverage", {})
    ext[key] = ext.get(key, 0) + 1
    if ext[key] == 1:
        ck.note("EXTENDED-COVERAGE %s: %s" % (key, what[:600]))


def proper_subsets(dev):
    """the proper subsets of the deviations in force, largest first (closest to the code as known)"""
    import itertools
    out = []
    for n in range(len(dev) - 1, -1, -1):
        out += [list(c) for c in itertools.combinations(dev, n)]
    return out


def read_emitted(path):
    """distinct terminal states (a terminal state is printed again for its stuttering step)"""
    seen = set()
    out = []
    with open(path) as f:
        for line in f:
            if line in seen:
                continue
            seen.add(line)
            out.append(json.loads(line))
    return out


# ================================================================================================ geometry (A)
def run_geom_tlc(ck, tier, dev, tmp, label="geometry"):
    """-> list of terminal-state records of the as-coded machine (intended results ride along as page/reflin/refpt)"""
    gdev = [d for d in dev if d in GEOM_DEVS]
    allrecs = []
    for conf in GEOM_CONFIGS[tier]:
        consts = {k: v for k, v in conf.items() if k != "name"}
        recs = None
        for which, dv in (("intended", []), ("as-coded", gdev)):
            if which == "as-coded" and not gdev:
                break
            c = dict(consts)
            c["Dev"] = tla_set(dv) if dv else "<- NoDev"
            emitting = (dv == gdev)
            cfg = write_cfg(os.path.join(tmp, "c04_geom_%s_%s.cfg" % (conf["name"], which)), constants=c,
                            invariants=["RotateRange", "BoxLands", "CropRef", "PageFromMediaBox"],
                            constraints=["EmitTerminal"] if emitting else [], deadlock=True)
            emit = os.path.join(tmp, "c04_geom_%s_%s.ndjson" % (conf["name"], which))
            res = run_tlc(GEOM_SPEC, cfg, emit=emit if emitting else None, coverage=(tier == "quick" and conf["name"] == "boxes"), timeout=3600)
            if ck is not None:
                ck.add_tlc(res, "%s %s %s Dev=%s" % (label, conf["name"], which, dv))
            if not res.ok:
                st = res.error_trace[-1][1] if res.error_trace else {}
                if ck is None:
                    raise MachineryError("PageGeom: %s violated" % res.violated)
                ck.violation("model:geom:" + str(res.violated),
                             "TLC: %s violated on the %s page-geometry model (boxw=%s rraw=%s)"
                             % (res.violated, which, st.get("boxw"), st.get("rraw")), {"kind": "tlc", "tlc": res.error_text[:4000]})
                continue
            if res.actions:
                require_coverage(res, GEOM_ACTIONS)
            if emitting:
                recs = read_emitted(emit)
                os.remove(emit)
                if not recs:
                    raise MachineryError("PageGeom emitted no terminal state")
                for r in recs:
                    r["conf"] = conf["name"]
        allrecs += recs or []
    return allrecs


class GeomTable:
    def __init__(self, recs):
        self.by_key = {}
        self.rot = {}
        for r in recs:
            if r.get("rform", "int") != "int" or r.get("uu", 1) != 1 or r.get("cropw") or r.get("rotation", 0) != 0:
                continue            # the table serves the tree replays: plain pages only
            self.by_key[(tuple(r["boxw"]), r["rraw"], tuple(r["pt"]))] = r
            self.rot[r["rraw"]] = r["rotate"]

    def rotate_of_raw(self, raw):
        if raw not in self.rot:
            raise MachineryError("raw Rotate %r is outside the PageGeom domain" % raw)
        return self.rot[raw]

    def lookup(self, boxw, rraw, pt):
        k = (tuple(boxw), rraw, tuple(pt))
        if k not in self.by_key:
            raise MachineryError("geometry case %r is outside the PageGeom domain" % (k,))
        return self.by_key[k]


def order_of(boxw):
    x0, y0, x1, y1 = boxw
    return ("ll" if (x0 < x1 and y0 < y1) else "ur" if (x0 > x1 and y0 > y1) else "ul" if x0 < x1 else "lr")


def judge_geometry(grec, bbox, matrix, findings, where):
    """The C04 geometry clause on the real result (bbox of the LTPage, matrix of the marker glyph) for the case
    grec (a PageGeom terminal state).  -> number of drift observations"""
    drift = 0
    real = (tuple(bbox), tuple(matrix[:4]) if matrix else None, tuple(matrix[4:]) if matrix else None)
    coded = (scaled(grec["bbox"]), tuple(float(v) for v in grec["ctm"][:4]), scaled(grec["mpt"]))
    if matrix is None:
        real = (real[0], coded[1], coded[2])          # no glyph to look at (no font in force): box only
    if grec["applies"]:
        want = (scaled(grec["page"]), tuple(float(v) for v in grec["reflin"]), scaled(grec["refpt"]))
        if matrix is None:
            want = (want[0], coded[1], coded[2])
        if real == want:
            return 0
        if real == coded and grec["fired"]:
            for d in grec["fired"]:
                if d == "CropNotClipped":
                    continue            # does not touch the page box or the matrix
                findings.append((("extended:" if d in EXT_DEVS else "dev:") + d,
                                 "MediaBox %s Rotate %s%s: page box %s, marker %s; expected %s, %s (%s)"
                                 % (grec["boxw"], grec["rraw"], " (written as a real number)" if grec.get("rform") == "real" else "",
                                    real[0], real[2], want[0], want[2], where)))
            return 0
        findings.append(("boxlands:rotate=%d:corners=%s" % (grec["rotate"], order_of(grec["boxw"])),
                         "MediaBox %s Rotate %s does not land on the (0,0) page turned clockwise: page box %s "
                         "glyph matrix %s; expected %s %s %s (%s)"
                         % (grec["boxw"], grec["rraw"], real[0], matrix, want[0], want[1], want[2], where)))
        return 0
    if real != coded:
        drift += 1
    return drift


def eval_geom_batch(recs, variant):
    """realises the PageGeom terminal states `recs` as the pages of one flat document and judges each"""
    from ..realise.pdfwriter import Name, Ref, Revision, Stream, build, type1_font
    from pdfminer.high_level import extract_pages
    findings, drift = [], 0
    objs = {1: {"Type": Name("Catalog"), "Pages": Ref(2)}, 3: type1_font("Helvetica")}
    kids = []
    nid = 4
    for r in recs:
        px, py = (RT.SCALE * v for v in r["pt"])
        objs[nid] = Stream({}, b"BT /F1 10 Tf 1 0 0 1 %d %d Tm (M) Tj ET" % (px, py))
        box = [RT.SCALE * v for v in r["boxw"]]
        rot = r["rraw"]
        if r.get("rform") == "real":
            from ..realise.pdfwriter import Raw
            rot = Raw(b"%d.0" % r["rraw"])
        elif variant == 1:
            objs[nid + 1] = box[2]
            objs[nid + 2] = rot
            box = [box[0], box[1], Ref(nid + 1), float(box[3])]
            rot = Ref(nid + 2)
        if variant == 1 and r.get("rform") == "real":
            objs[nid + 1] = box[2]
            box = [box[0], box[1], Ref(nid + 1), float(box[3])]
        objs[nid + 3] = {"Type": Name("Page"), "Parent": Ref(2), "MediaBox": box, "Rotate": rot, "Contents": Ref(nid),
                         "Resources": {"Font": {"F1": Ref(3)}}}
        if r.get("uu", 1) != 1:
            objs[nid + 3]["UserUnit"] = r["uu"]
        if r.get("cropw"):
            objs[nid + 3]["CropBox"] = [RT.SCALE * v for v in r["cropw"]]
        kids.append(Ref(nid + 3))
        nid += 4
    objs[2] = {"Type": Name("Pages"), "Kids": kids, "Count": len(kids)}
    data, _ = build([Revision(dict(sorted(objs.items())), root=Ref(1))])
    detail = "a flat document of %d pages" % len(recs)
    ok, pages = guarded("PDFPage.get_pages", lambda: list(OB.PDFPage.get_pages(BytesIO(data))), findings, detail)
    ok2, lts = guarded("extract_pages", lambda: list(extract_pages(BytesIO(data))), findings, detail)
    if not (ok and ok2):
        return findings, drift, 0
    if len(pages) != len(recs) or len(lts) != len(recs):
        findings.append(("order", "a flat tree of %d pages produced %d pages / %d layouts" % (len(recs), len(pages), len(lts))))
        return findings, drift, 0
    for r, p, lt in zip(recs, pages, lts):
        where = "geometry case"
        real_form = r.get("rform") == "real"
        if not (isinstance(p.rotate, int) and 0 <= p.rotate < 360):
            findings.append(("rotate-range", "Rotate %d is reported as %r" % (r["rraw"], p.rotate)))
        elif real_form:
            # outside the statement (ISO: an integer): the specification's two answers, anything else is unexplained
            if p.rotate != r.get("refrot"):
                if p.rotate == r["rotate"] and "RealRotateIgnored" in r["fired"]:
                    findings.append(("extended:RealRotateIgnored", "Rotate %d.0 (a real number) is reported as %r" % (r["rraw"], p.rotate)))
                else:
                    findings.append(("extended:unexplained:rotate", "Rotate %d.0 is reported as %r; as coded %r, as an integer %r"
                                     % (r["rraw"], p.rotate, r["rotate"], r.get("refrot"))))
        elif (p.rotate - r["rraw"]) % 360 != 0:
            findings.append(("rotate-range", "Rotate %d is reported as %r" % (r["rraw"], p.rotate)))
        elif p.rotate != r["rotate"]:
            drift += 1
        if "cropbox" in r:
            got_crop = tuple(p.cropbox)
            if got_crop != scaled(r["refcrop"]):
                if got_crop == scaled(r["cropbox"]) and "CropNotClipped" in r["fired"]:
                    findings.append(("extended:CropNotClipped", "CropBox %s on MediaBox %s is reported as %s; clipped to the MediaBox it is %s"
                                     % (r["cropw"], r["boxw"], got_crop, scaled(r["refcrop"]))))
                else:
                    findings.append(("extended:unexplained:cropbox", "CropBox %s on MediaBox %s is reported as %s; as coded %s, clipped %s"
                                     % (r["cropw"], r["boxw"], got_crop, scaled(r["cropbox"]), scaled(r["refcrop"]))))
        if tuple(p.mediabox) != scaled(r["mediabox"]):
            drift += 1
        ch = [c for c in OB.chars_of(lt) if c[0] == "M"]
        if len(ch) != 1:
            findings.append(("marker-lost", "the marker glyph of a page with MediaBox %s Rotate %s came out %d times"
                             % (r["boxw"], r["rraw"], len(ch))))
            continue
        drift += judge_geometry(r, lt.bbox, ch[0][1], findings, where)
    return findings, drift, len(recs)


def eval_rotation_batch(recs, variant):
    """PageGeom terminal states that share one `rotation` argument, as the pages of one document run through
    high_level.extract_text_to_fp(output_type="xml", rotation=r).  variant 0: every page carries its own /Rotate;
    variant 1: each page inherits it from a Pages node of its own.  Observed: the page.rotate process_page is given
    (wrapper installed for the call), and from the XML the page box and the marker glyph's box - the latter compared
    with the same document carrying (Rotate + rotation) mod 360 as the model has it, run with rotation=0."""
    import io as _io
    from ..realise.pdfwriter import Name, Ref, Revision, Stream, build, type1_font
    from pdfminer import high_level
    from pdfminer.layout import LAParams
    findings, drift = [], 0
    rotation = recs[0]["rotation"]

    def document(rot_of):
        objs = {1: {"Type": Name("Catalog"), "Pages": Ref(2)}, 3: type1_font("Helvetica")}
        kids = []
        nid = 4
        for r in recs:
            px, py = (RT.SCALE * v for v in r["pt"])
            objs[nid] = Stream({}, b"BT /F1 10 Tf 1 0 0 1 %d %d Tm (M) Tj ET" % (px, py))
            page = {"Type": Name("Page"), "Parent": Ref(2), "MediaBox": [RT.SCALE * v for v in r["boxw"]], "Contents": Ref(nid),
                    "Resources": {"Font": {"F1": Ref(3)}}}
            if variant == 0:
                page["Rotate"] = rot_of(r)
                objs[nid + 1] = page
                kids.append(Ref(nid + 1))
            else:
                page["Parent"] = Ref(nid + 2)
                objs[nid + 1] = page
                objs[nid + 2] = {"Type": Name("Pages"), "Parent": Ref(2), "Kids": [Ref(nid + 1)], "Count": 1, "Rotate": rot_of(r)}
                kids.append(Ref(nid + 2))
            nid += 3
        objs[2] = {"Type": Name("Pages"), "Kids": kids, "Count": len(recs)}
        return build([Revision(dict(sorted(objs.items())), root=Ref(1))])[0]

    def run(data, rot):
        seen = []
        cls = OB.PDFPageInterpreter
        orig = cls.process_page

        def process_page(self, page):
            seen.append(page.rotate)
            return orig(self, page)
        cls.process_page = process_page
        try:
            out = _io.BytesIO()
            high_level.extract_text_to_fp(_io.BytesIO(data), out, output_type="xml", codec="utf-8", laparams=LAParams(), rotation=rot)
        finally:
            cls.process_page = orig
        text = out.getvalue().decode("utf-8")
        pages = re.findall(r'<page id="\d+" bbox="([^"]*)"[^>]*>(.*?)</page>', text, re.S)
        res = []
        for bbox, body in pages:
            glyphs = re.findall(r'<text font="[^"]*" bbox="([^"]*)"[^>]*>M</text>', body)
            res.append((tuple(float(x) for x in bbox.split(",")), [tuple(float(x) for x in g.split(",")) for g in glyphs]))
        return seen, res

    detail = "%d pages, extract_text_to_fp(rotation=%d), Rotate %s" % (len(recs), rotation, "own" if variant == 0 else "inherited")
    ok, a = guarded("extract_text_to_fp", lambda: run(document(lambda r: r["rraw"]), rotation), findings, detail)
    ok2, b = guarded("extract_text_to_fp", lambda: run(document(lambda r: r["rotate"]), 0), findings, detail + " (reference document)")
    if not (ok and ok2):
        return findings, drift, 0
    (rot_a, pages_a), (rot_b, pages_b) = a, b
    if len(pages_a) != len(recs) or len(pages_b) != len(recs) or len(rot_a) != len(recs):
        findings.append(("order", "extract_text_to_fp wrote %d / %d pages for %d" % (len(pages_a), len(pages_b), len(recs))))
        return findings, drift, 0
    for r, rot, (bbox, glyphs), (bbox_b, glyphs_b) in zip(recs, rot_a, pages_a, pages_b):
        what = "Rotate %d (%s) with rotation=%d on MediaBox %s" % (r["rraw"], "own" if variant == 0 else "inherited", rotation, r["boxw"])
        if not (isinstance(rot, int) and 0 <= rot < 360 and (rot - r["rraw"] - rotation) % 360 == 0):
            findings.append(("rotate-range:rotation-argument", "%s: process_page is given page.rotate = %r, expected %d" % (what, rot, r["refrot"])))
            continue
        if rot != r["rotate"]:
            drift += 1
        if r["applies"]:
            if bbox != scaled(r["page"]):
                findings.append(("boxlands:rotation-argument:page", "%s: the page box is %s, turned by %d it is %s" % (what, bbox, r["refrot"], scaled(r["page"]))))
            elif len(glyphs) != 1 or glyphs != glyphs_b:
                findings.append(("boxlands:rotation-argument:glyph", "%s: the marker glyph's box is %s; on the same page carrying Rotate %d it is %s"
                                 % (what, glyphs, r["refrot"], glyphs_b)))
        elif bbox != scaled(r["bbox"]):
            drift += 1
    return findings, drift, len(recs)


# ================================================================================================ tree (A)
def tree_jobs(conf, dev, tmp, emit_path, tier):
    """the TLC runs for one configuration: the intended model (strict invariants) and, when deviations are in force,
    the as-coded one; the terminal states of the latter (or of the former when none is in force) are emitted"""
    tdev = [d for d in dev if d in TREE_DEVS]
    consts = {"N": conf["N"], "K": conf["K"], "E": conf["E"],
              "Attrs": tla_set(conf["attrs"]) if conf["attrs"] else "<- NoAttrs",
              "Inheritable": tla_set(conf["inh"]) if conf["inh"] else "<- NoAttrs", "OwnSets": conf["own"],
              "CatAttrs": tla_set(conf["cat"]) if conf["cat"] else "<- NoAttrs",
              "RootKinds": conf["root"], "Kinds": conf["kinds"], "AllowBack": "TRUE" if conf["back"] else "FALSE",
              "PageNoSets": conf["pn"], "MaxPagesSet": conf["mp"]}
    jobs = []
    # a deviation can only fire where the configuration reaches it (catalog entries; a selection): elsewhere the
    # as-coded and the intended machine are the same machine and one run serves
    reach = [d for d in tdev if (d == "CatalogInherits" and conf["cat"]) or (d == "ContinueSkipsMax" and conf["pn"] != "<- PN_None")]
    tdev = reach
    for which, dv in (("intended", []), ("as-coded", tdev)):
        if which == "as-coded" and not tdev:
            break
        c = dict(consts)
        c["Dev"] = tla_set(dv) if dv else "<- NoDev"
        emitting = (dv == tdev)
        cfg = write_cfg(os.path.join(tmp, "c04_%s_%s.cfg" % (conf["name"], which)), constants=c,
                        invariants=TREE_INVARIANTS, properties=["Progress"],
                        constraints=["EmitTerminal"] if emitting else [], deadlock=True)
        label = "tree %s %s N=%d K=%d E=%d Attrs=%s Dev=%s" % (conf["name"], which, conf["N"], conf["K"], conf["E"], list(conf["attrs"]), dv)
        cov = tier == "quick" and which == "intended" and conf["name"] in COVERAGE_ON
        jobs.append(dict(conf=conf, which=which, label=label, emitting=emitting,
                         call=(lambda cfg=cfg, emitting=emitting, cov=cov:
                               run_tlc(TREE_SPEC, cfg, emit=emit_path if emitting else None, coverage=cov, workers=TLC_WORKERS, timeout=7200))))
    return jobs


TLC_WORKERS = 4


def account_tree_run(ck, job, res):
    """-> True when the run finished without a violation on the model itself"""
    conf = job["conf"]
    ck.add_tlc(res, job["label"])
    if not res.ok:
        st = res.error_trace[-1][1] if res.error_trace else {}
        ck.violation("model:tree:" + str(res.violated),
                     "TLC: %s violated on the %s page-tree model (config %s; g=%s pagenos=%s maxpages=%s)"
                     % (res.violated, job["which"], conf["name"], st.get("g"), st.get("pagenos"), st.get("maxpages")),
                     {"kind": "tlc", "tlc": res.error_text[:4000]})
        return False
    if res.actions:
        require_coverage(res, conf["need"])
    return True


def as_props(p):
    pr = p["props"]
    return pr if isinstance(pr, dict) else {}


def describe_page(p, vals, geom, annot_src=None):
    """the sources of the four inheritable attributes (and of /Annots), read back from what pdfminer reports"""
    out = {}
    extra = []
    an = OB.resolve1(p.annots)
    if an is None:
        out["Annots"] = 0
    elif isinstance(an, list) and an and isinstance(an[0], OB.PDFObjRef):
        out["Annots"] = (annot_src or {}).get(an[0].objid, ("?", an[0].objid))
    else:
        out["Annots"] = ("?", repr(an))
    res = OB.resolve1(p.resources)
    f1 = None
    if isinstance(res, dict):
        fonts = OB.resolve1(res.get("Font"))
        if isinstance(fonts, dict):
            f1 = OB.resolve1(fonts.get("F1"))
    if "Resources" not in p.attrs:
        out["Resources"] = 0
        if res not in ({}, None):
            extra.append("resources without a Resources entry: %r" % (res,))
    elif isinstance(f1, dict) and "BaseFont" in f1:
        out["Resources"] = vals.src_of_font(getattr(f1["BaseFont"], "name", f1["BaseFont"]))
    else:
        out["Resources"] = ("?", repr(res))
    if "MediaBox" in p.attrs:
        out["MediaBox"] = vals.src_of_mediabox(p.mediabox)
    else:
        out["MediaBox"] = 0
    if "CropBox" in p.attrs:
        out["CropBox"] = vals.src_of_cropbox(p.cropbox)
    else:
        out["CropBox"] = 0
        if tuple(p.cropbox) != tuple(p.mediabox):
            extra.append("cropbox-default")
    out["Rotate"] = vals.src_of_rotate(p.rotate, geom.rotate_of_raw) if "Rotate" in p.attrs else (0 if p.rotate == 0 else ("?", p.rotate))
    return out, extra


def expected_sources(label, props, attrs, vals):
    e = {"Annots": props.get("Annots", 0) if "Annots" in attrs else 0}
    for a in RT.INHERITABLE:
        if a in attrs:
            e[a] = props.get(a, 0)
        elif a == "CropBox" or (a == "Rotate" and not vals.rot_ok):
            e[a] = 0
        else:
            e[a] = label
    return e


def spell_page_numbers(pagenos, k):
    """The page_numbers argument for the model's set of indices - any container will do and only membership counts:
    a set, a sorted list, an unsorted list with a duplicated entry, a tuple with a negative and an out-of-range entry
    (and duplicates), a dict; the empty selection as None, [], () or an empty set (falsy = all pages)."""
    pagenos = sorted(pagenos)
    if not pagenos:
        return [None, [], (), set(), None][k % 5]
    lo = pagenos[0]
    form = k % 5
    if form == 0:
        return set(pagenos)
    if form == 1:
        return list(pagenos)
    if form == 2:
        return [lo] + list(reversed(pagenos)) + [lo]            # unsorted, the smallest entry three times
    if form == 3:
        return tuple([lo, -1] + pagenos + [99, lo, -1])          # negative and out-of-range entries, duplicates
    return dict.fromkeys(pagenos)


BLANK_FORMS = ("none", "empty-array", "empty-stream")


def blank_mode_of(i):
    """three cases in eight have a blank page: first / middle / last position, the three spellings in turn"""
    return (i % 8 if i % 8 < 4 else 0) + 4 * ((i // 8) % 3)


def eval_tree_case(rec, attrs, variant, shift, geom, deep=True, text=True, blank_mode=0):
    """-> dict(findings=[(key, what)], drift=int, nontrivial=bool, sample=dict)
    blank_mode: 0 no blank page; 1 / 2 / 3 the first / a middle / the last produced page has no content (no /Contents,
    /Contents [], /Contents [empty stream], taken in turn): it is still a page - one layout with its box and no glyph
    from extract_pages, one form feed from extract_text"""
    from pdfminer.high_level import extract_pages, extract_text
    findings = []
    drift = 0
    g = rec["g"]
    ref, coded = rec["ref"], rec["produced"]
    fired = set(rec["fired"])
    pagenos, maxpages = sorted(rec["pagenos"]), rec["maxpages"]
    mark_src = {p["node"]: as_props(p).get("MediaBox", 0) for p in coded}
    blank = {}
    if blank_mode % 4 and coded:
        pos = {1: 0, 2: len(coded) // 2, 3: len(coded) - 1}[blank_mode % 4]
        blank[coded[pos]["node"]] = BLANK_FORMS[(blank_mode // 4 + shift) % 3]
    data, meta = RT.realise(g, rec["cat"], attrs, variant, shift, mark_box_src=mark_src, blank=blank)
    vals = meta["values"]
    detail = "graph %s cat=%s (variant %d%s)" % (json.dumps([[n["kind"], n["own"], n["kids"]] for n in g]), rec["cat"], variant,
                                                  ", blank page %s" % blank if blank else "")
    letters = lambda nodes: "".join(chr(64 + x) for x in nodes)     # noqa: E731
    out = {"findings": findings, "drift": 0, "nontrivial": False, "sample": None}

    # ---- create_pages: order, inheritance, each node once
    state = {}

    def walk():
        state["doc"] = OB.open_doc(data)
        return list(OB.PDFPage.create_pages(state["doc"]))
    ok, pages = guarded("PDFPage.create_pages", walk, findings, detail)
    if not ok:
        return out
    real = []
    for p in pages:
        srcs, extra = describe_page(p, vals, geom, meta["annot_src"])
        for x in extra:
            if x == "cropbox-default":
                findings.append(("cropbox-default", "a page without CropBox reports cropbox %r, mediabox %r" % (p.cropbox, p.mediabox)))
            else:
                drift += 1
        if not (isinstance(p.rotate, int) and 0 <= p.rotate < 360):
            findings.append(("rotate-range", "PDFPage.rotate = %r" % (p.rotate,)))
        real.append((meta["label_of"].get(p.pageid, ("?", p.pageid)), srcs))
    real_nodes = [r[0] for r in real]
    ref_nodes = [p["node"] for p in ref]
    if real_nodes != ref_nodes:
        key = "visited-once" if len(set(real_nodes)) != len(real_nodes) else "order"
        findings.append((key, "create_pages produced pages %s, depth-first Kids order visiting each node once gives %s on %s"
                         % (real_nodes, ref_nodes, detail)))
    else:
        for (lab, srcs), rp, cp in zip(real, ref, coded):
            want = expected_sources(lab, as_props(rp), attrs, vals)
            have = expected_sources(lab, as_props(cp), attrs, vals)
            if srcs["Annots"] != want["Annots"]:
                # not one of the four attributes of C04's statement: extended coverage
                findings.append(("extended:annots", "page %s reports /Annots of source %r, its own dictionary has %r (never inherited) on %s"
                                 % (lab, srcs["Annots"], want["Annots"] or None, detail)))
            for a in RT.INHERITABLE:
                if srcs[a] == want[a]:
                    continue
                if srcs[a] == have[a] and "CatalogInherits" in fired and have[a] == RT.CAT:
                    findings.append(("dev:CatalogInherits", "page %s takes %s from the catalog dictionary on %s" % (lab, a, detail)))
                else:
                    findings.append(("inherit:" + a, "page %s has %s from source %r, nearest ancestor defining it is %r on %s"
                                     % (lab, a, srcs[a], want[a], detail)))
    # ---- get_pages: selection
    pn_arg = spell_page_numbers(pagenos, shift + 2 * variant)
    index_of = {p.pageid: i for i, p in enumerate(pages)}

    def judge_selection(got, site):
        if got == rec["refsel"]:
            return True
        if got == rec["yielded"] and "ContinueSkipsMax" in fired:
            findings.append(("dev:ContinueSkipsMax", "%s(page_numbers=%s, maxpages=%d) on %d pages yields %s, expected %s"
                             % (site, pagenos, maxpages, len(pages), got, rec["refsel"])))
            return True
        kind = "extra" if set(got) - set(rec["refsel"]) else "missing" if set(rec["refsel"]) - set(got) else "order"
        findings.append(("selection:%s@%s" % (kind, site), "%s(page_numbers=%r, maxpages=%d) on %d pages yields %s, expected %s on %s"
                         % (site, pn_arg, maxpages, len(pages), got, rec["refsel"], detail)))
        return False

    ok, sel = guarded("PDFPage.get_pages", lambda: list(OB.PDFPage.get_pages(BytesIO(data), pn_arg, maxpages=maxpages)),
                      findings, detail)
    if ok:
        judge_selection([index_of.get(p.pageid, -1) for p in sel], "PDFPage.get_pages")
    # ---- purity: the walk leaves the document's objects as they were (the model's g does not change)
    for lab, own in meta["own"].items():
        d = state["doc"].getobj(meta["objid_of"][lab])
        if own is not None and isinstance(d, dict) and {k for k in d if k in RT.INHERITABLE} != own:
            findings.append(("walk-mutates-document", "after create_pages node %d's own dictionary carries %s, the file has %s"
                             % (lab, sorted(k for k in d if k in RT.INHERITABLE), sorted(own))))
            break
    if deep and real_nodes == ref_nodes:
        # ---- extract_pages: LTPage.bbox, marker glyph (position, orientation, font)
        ok, lts = guarded("extract_pages", lambda: list(extract_pages(BytesIO(data), page_numbers=pn_arg, maxpages=maxpages)),
                          findings, detail)
        if ok:
            got = []
            for lt in lts:
                ch = [c for c in OB.chars_of(lt) if c[0].isalpha()]
                got.append(ch[0][0] if len(ch) == 1 else "" if not ch else "?")
            got_idx = [real_nodes.index(ord(c) - 64) if c not in ("?", "") and (ord(c) - 64) in real_nodes else -1 for c in got]
            # a layout without glyphs stands for the blank page if that is the page due at its position
            for k, c in enumerate(got):
                if c == "" and k < len(rec["refsel"]) and real_nodes[rec["refsel"][k]] in blank:
                    got_idx[k] = rec["refsel"][k]
            if len({id(lt) for lt in lts}) != len(lts):
                findings.append(("extract_pages:layout-yielded-twice", "extract_pages yields the same LTPage object for two pages (%s)" % detail))
            if judge_selection(got_idx, "extract_pages"):
                for lt, i in zip(lts, got_idx):
                    lab, srcs = real[i]
                    cp = expected_sources(lab, as_props(coded[i]), attrs, vals)
                    if srcs == cp and cp["Resources"] == 0:
                        # a page without Resources (own or inherited): whatever its content names, it must not be
                        # rendered with the fonts of a page that ran before it in the same interpreter, and running it
                        # alone (page_numbers = its index) must give the same glyph
                        chs = [c for c in OB.chars_of(lt) if c[0].isalpha()]
                        if chs and chs[0][2] in RT.FONT_TABLE:
                            findings.append(("inherit:Resources@render:foreign", "page %s has no Resources (own or inherited) and is rendered with "
                                             "font %s, which another page's Resources define (%s)" % (lab, chs[0][2], detail)))
                        ok1, alone = guarded("extract_pages", lambda: list(extract_pages(BytesIO(data), page_numbers=[i])), findings, detail)
                        if ok1 and len(alone) == 1:
                            ach = [c for c in OB.chars_of(alone[0]) if c[0].isalpha()]
                            if [(c[0], c[2]) for c in ach] != [(c[0], c[2]) for c in chs]:
                                findings.append(("resources:depends-on-earlier-pages", "page %s comes out as %s after the pages before it and as %s "
                                                 "when extracted alone (%s)" % (lab, [(c[0], c[2]) for c in chs], [(c[0], c[2]) for c in ach], detail)))
                    if srcs != cp or cp["MediaBox"] == 0:
                        continue            # inheritance already reported / MediaBox defaulted (not in the geometry domain)
                    rraw = vals.rotate(cp["Rotate"]) if cp["Rotate"] != 0 else 0
                    grec = geom.lookup(vals.box_units(cp["MediaBox"]), rraw, vals.mark_units(lab, cp["MediaBox"]))
                    ch = [c for c in OB.chars_of(lt) if c[0].isalpha()]
                    if lab in blank:
                        if ch:
                            findings.append(("blank-page:glyphs", "the blank page %s comes out with glyphs %s (%s)" % (lab, [c[0] for c in ch], detail)))
                        drift += judge_geometry(grec, lt.bbox, None, findings, "blank page %s of %s" % (lab, detail))
                        continue
                    want_font = vals.font(cp["Resources"]) if cp["Resources"] != 0 else "unknown"
                    if ch[0][2] != want_font:
                        if cp["Resources"] == 0:
                            drift += 1      # which font stands in when no Resources are in force is not C04's business
                        else:
                            findings.append(("inherit:Resources@render", "page %s rendered with font %s, its Resources come from "
                                             "source %r (%s)" % (lab, ch[0][2], cp["Resources"], want_font)))
                    drift += judge_geometry(grec, lt.bbox, ch[0][1], findings, "page %s of %s" % (lab, detail))
        # ---- extract_text
        ok, txt = (guarded("extract_text", lambda: extract_text(BytesIO(data), page_numbers=pn_arg, maxpages=maxpages), findings, detail)
                   if (text or pagenos or maxpages or blank) else (False, None))
        if ok:
            # one form feed per page, blank or not; between them the page's letter (nothing for the blank page)
            parts = txt.split("\x0c")
            if parts and parts[-1].strip() == "":
                parts = parts[:-1]
            got_idx = []
            for k, part in enumerate(parts):
                letters = re.findall(r"[A-Z]", part)
                if len(letters) == 1 and (ord(letters[0]) - 64) in real_nodes:
                    got_idx.append(real_nodes.index(ord(letters[0]) - 64))
                elif not letters and k < len(rec["refsel"]) and real_nodes[rec["refsel"][k]] in blank:
                    got_idx.append(rec["refsel"][k])
                else:
                    got_idx.append(-1)
            if txt.count("\x0c") != len(parts):
                findings.append(("selection:pages-vs-text@extract_text", "extract_text wrote %d page ends for %d page texts on %s"
                                 % (txt.count("\x0c"), len(parts), detail)))
            judge_selection(got_idx, "extract_text")
    out["drift"] = drift
    inherits = any(v not in (0, p["node"]) for p in ref for v in as_props(p).values())
    repeats = any(len(set(n["kids"])) != len(n["kids"]) for n in g) or any(k <= i + 1 for i, n in enumerate(g) for k in n["kids"])
    drops = len(rec["refsel"]) != len(ref)
    out["nontrivial"] = bool(ref) and (inherits or repeats or drops or len(ref) > 1)
    out["sample"] = {"graph": [[n["kind"], n["own"], n["kids"]] for n in g], "cat": rec["cat"], "page_numbers": pagenos,
                     "maxpages": maxpages, "variant": variant,
                     "expected_pages": [[p["node"], as_props(p)] for p in ref], "expected_selection": rec["refsel"],
                     "observed_pages": [[r[0], {a: r[1][a] for a in attrs}] for r in real],
                     "observed_selection": [index_of.get(p.pageid, -1) for p in sel] if sel is not None else None,
                     "pdf_bytes": len(data)}
    return out


# ---- process pool plumbing (fork: the geometry table and the records are inherited, results come back small)
_G = {}


def _tree_chunk(args):
    lo, hi = args
    recs, attrs, geom, variants, base = _G["recs"], _G["attrs"], _G["geom"], _G["variants"], _G["base"]
    res = []
    for i in range(lo, hi):
        for v in variants(i):
            r = eval_tree_case(recs[i], attrs, v, (base + i) % 7, geom, text=(i % 4 == 0), blank_mode=blank_mode_of(i))
            res.append((i, v, r["findings"], r["drift"], r["nontrivial"], r["sample"] if (r["findings"] or i % 997 == 0) else None))
    return res


def _geom_chunk(args):
    lo, hi, variant = args
    return (lo, hi, variant) + eval_geom_batch(_G["grecs"][lo:hi], variant)


def pool(n=None):
    import multiprocessing
    return multiprocessing.get_context("fork").Pool(n or min(12, os.cpu_count() or 2))


def _rot_chunk(args):
    key, lo, hi, variant = args
    return (key, lo, hi, variant) + eval_rotation_batch(_G["rot"][key][lo:hi], variant)


def replay_rotation(ck, recs):
    """the states of the `rotation` configuration: grouped by the rotation argument, each group run with the page's own
    and with an inherited /Rotate"""
    groups = {}
    for r in recs:
        groups.setdefault(r["rotation"], []).append(r)
    _G["rot"] = groups
    step = 40
    tasks = [(key, lo, min(lo + step, len(g)), v) for key, g in groups.items() for lo in range(0, len(g), step) for v in (0, 1)]
    drift = 0
    with pool() as p:
        for key, lo, hi, variant, findings, d, n in p.imap_unordered(_rot_chunk, tasks):
            drift += d
            for k, what in findings:
                report(ck, k, what, {"kind": "rotation", "recs": groups[key][lo:hi], "variant": variant})
            ck.replayed += n
            for r in groups[key][lo:hi]:
                ck.case(1, ("R", tuple(r["boxw"]), r["rraw"], r["rotation"], variant) if (r["rotation"] % 360 != 0 and r["rraw"] % 360 != 0) else None)
    if recs:
        r = [x for x in recs if x["rotation"] == 180 and x["rraw"] == 270][:1] or recs[:1]
        ck.sample({"MediaBox_units": r[0]["boxw"], "Rotate": r[0]["rraw"], "rotation_argument": r[0]["rotation"], "model_rotate": r[0]["rotate"],
                   "model_page_box": r[0]["bbox"], "model_marker": r[0]["mpt"]})
    return drift


def replay_geometry(ck, grecs):
    rot = [r for r in grecs if r.get("conf") == "rotation"]
    grecs = [r for r in grecs if r.get("conf") != "rotation"]
    drift0 = replay_rotation(ck, rot) if rot else 0
    ck.extra["rotation_argument_cases"] = len(rot)
    return drift0 + _replay_geometry(ck, grecs)


def _replay_geometry(ck, grecs):
    _G["grecs"] = grecs
    step = 48
    tasks = [(lo, min(lo + step, len(grecs)), (lo // step) % 2) for lo in range(0, len(grecs), step)]
    drift = 0
    with pool() as p:
        for lo, hi, variant, findings, d, n in p.imap_unordered(_geom_chunk, tasks):
            drift += d
            for key, what in findings:
                if key.startswith("extended:"):
                    note_extended(ck, key[len("extended:"):], what)
                else:
                    report(ck, key, what, {"kind": "geom", "recs": grecs[lo:hi], "variant": variant})
            for r in grecs[lo:hi]:
                ck.case(1, ("G", tuple(r["boxw"]), r["rraw"]) if (r["rraw"] % 360 != 0 or r["boxw"][0] != 0 or r["boxw"][1] != 0) else None)
            ck.replayed += n
    if grecs:
        r = grecs[len(grecs) // 3]
        ck.sample({"MediaBox_units": r["boxw"], "Rotate": r["rraw"], "marker_units": r["pt"], "model_rotate": r["rotate"],
                   "model_ctm": r["ctm"], "model_page_box": r["bbox"], "model_marker": r["mpt"], "lands": r["lands"]})
    return drift


def has_shared_page(g):
    """a Page object listed more than once (by one parent or by two): "visiting each node once" is about these"""
    cnt = {}
    for n in g:
        for k in n["kids"]:
            cnt[k] = cnt.get(k, 0) + 1
    return any(c > 1 and g[k - 1]["kind"] == "Page" for k, c in cnt.items())


def replay_trees(ck, conf, recs, geom, both_variants):
    ck.extra["graphs_with_a_page_listed_twice"] = ck.extra.get("graphs_with_a_page_listed_twice", 0) + sum(1 for r in recs if has_shared_page(r["g"]))
    _G.update(recs=recs, attrs=tuple(conf["attrs"]), geom=geom, base=ck.seed,
              variants=(lambda i: (0, 1)) if both_variants else (lambda i: (i % 2,)))
    step = max(20, min(400, len(recs) // 64 + 1))
    tasks = [(lo, min(lo + step, len(recs))) for lo in range(0, len(recs), step)]
    drift = 0
    with pool() as p:
        for res in p.imap_unordered(_tree_chunk, tasks):
            for i, v, findings, d, nontrivial, sample in res:
                drift += d
                for key, what in findings:
                    if key.startswith("extended:"):
                        note_extended(ck, key[len("extended:"):], what)
                        continue
                    if key == "walk-mutates-document":
                        # not a clause of C04 (the pages produced are still right): history independence is C12's
                        # business.  Reported as spec/code drift - the model's document does not change.
                        ck.extra["walk_mutates_document"] = ck.extra.get("walk_mutates_document", 0) + 1
                        if ck.extra["walk_mutates_document"] == 1:
                            ck.note("create_pages changed the document's own objects (model: the document is read-only): " + what)
                        continue
                    report(ck, key, what, {"kind": "tree", "rec": recs[i], "attrs": list(conf["attrs"]), "variant": v,
                                           "shift": (ck.seed + i) % 7, "config": conf["name"], "blank_mode": blank_mode_of(i)})
                ck.case(1, ("T", conf["name"], i) if nontrivial else None)
                ck.replayed += 1
                if sample is not None and not [f for f in findings if f[0] != "walk-mutates-document" and not f[0].startswith("extended:")]:
                    ck.sample(sample, limit=6)
    return drift


def direction_a(ck, dev):
    from concurrent.futures import ThreadPoolExecutor
    st = RT.self_check()
    if st:
        raise MachineryError("page-tree realiser self-check failed: " + st)
    drift = 0
    counts = {}
    with ThreadPoolExecutor(max_workers=4) as ex:
        # the tree models are checked by TLC in the background while the geometry is replayed
        pending = []
        for conf in TREE_CONFIGS[ck.tier]:
            emit = os.path.join(ck.tmp, "c04_%s.ndjson" % conf["name"])
            jobs = tree_jobs(conf, dev, ck.tmp, emit, ck.tier)
            pending.append((conf, emit, [(j, ex.submit(j["call"])) for j in jobs]))
        grecs = run_geom_tlc(ck, ck.tier, dev, ck.tmp)
        geom = GeomTable(grecs)
        drift += replay_geometry(ck, grecs)
        ck.extra["geometry_cases"] = len(grecs)
        for conf, emit, futs in pending:
            ok = True
            for j, f in futs:
                ok = account_tree_run(ck, j, f.result()) and ok
            if not ok:
                continue
            recs = read_emitted(emit)
            os.remove(emit)
            if not recs:
                raise MachineryError("PageTree config %s emitted no terminal state" % conf["name"])
            counts[conf["name"]] = len(recs)
            drift += replay_trees(ck, conf, recs, geom, both_variants=(len(recs) < (40000 if ck.tier == "thorough" else 4000)))
    ck.extra["terminal_states_by_config"] = counts
    if ck.tier == "thorough":
        drift += simulate_four(ck, dev, geom)
    ck.extra["model_code_drift"] = drift
    if drift:
        ck.note("%d observations where the real code and the specification's as-coded machine differ outside the "
                "property's clauses (oblique Rotate, defaulted MediaBox): spec/code drift" % drift)


def simulate_four(ck, dev, geom):
    """all four attributes (and the catalog carrying them) on larger graphs: random behaviours (-simulate)"""
    s = SIMULATE
    tdev = [d for d in dev if d in TREE_DEVS]
    cfg = write_cfg(os.path.join(ck.tmp, "c04_sim.cfg"),
                    constants={"N": s["N"], "K": s["K"], "E": s["E"], "Attrs": tla_set(s["attrs"]), "Inheritable": tla_set(s["attrs"]),
                               "OwnSets": "<- AllOwnSets", "CatAttrs": tla_set(s["cat"]),
                               "RootKinds": '{"Pages"}', "Kinds": ALLK, "AllowBack": "TRUE", "PageNoSets": "<- PN_Few",
                               "MaxPagesSet": "{0, 1, 2, 3}", "Dev": tla_set(tdev) if tdev else "<- NoDev"},
                    invariants=TREE_INVARIANTS, constraints=["EmitTerminal"], deadlock=False)
    emit = os.path.join(ck.tmp, "c04_sim.ndjson")
    res = run_tlc(TREE_SPEC, cfg, emit=emit, simulate={"num": s["num"]}, depth=s["depth"], seed=ck.seed, timeout=600)
    ck.add_tlc(res, "tree simulation, four attributes, N=%d" % s["N"])
    if not res.ok:
        ck.violation("model:tree:" + str(res.violated), "TLC (simulation): %s violated on the page-tree model" % res.violated,
                     {"kind": "tlc", "tlc": res.error_text[:4000]})
        return 0
    recs = read_emitted(emit)
    os.remove(emit)
    ck.extra["simulated_terminal_states"] = len(recs)
    conf = dict(name="simulate-four", attrs=s["attrs"])
    return replay_trees(ck, conf, recs, geom, both_variants=True) if recs else 0


# ================================================================================================ direction B
PASSWORDS = {"aes-128.pdf": "foo", "aes-128-m.pdf": "foo", "aes-256.pdf": "foo", "aes-256-m.pdf": "foo",
             "aes-256-r6.pdf": "usersecret", "rc4-128.pdf": "foo", "rc4-40.pdf": "foo"}


def random_graph(rng, n, back=0.05):
    """a large document graph (far outside the bounded space): nodes in creation order, random fan-out, random
    attribute placement; back > 0: some repeated / backward Kids entries (cycles)"""
    g = [{"kind": "Pages", "own": ["MediaBox"], "nk": 0, "kids": []}]
    open_nodes = [1]
    width = {1: rng.choice([8, 40])}
    while len(g) < n:
        parent = rng.choice(open_nodes)
        r = rng.random()
        if r < back and len(g) > 1:
            g[parent - 1]["kids"].append(rng.randrange(1, len(g) + 1))
            continue
        kind = "Pages" if r < back + 0.25 else "Other" if r < back + 0.29 else "Page"
        g.append({"kind": kind, "own": [], "nk": 0, "kids": []})
        g[parent - 1]["kids"].append(len(g))
        if kind == "Pages":
            open_nodes.append(len(g))
            width[len(g)] = rng.choice([3, 8, 40])
        if len(g[parent - 1]["kids"]) > width[parent] and len(open_nodes) > 1:
            open_nodes.remove(parent)
    for node in g:
        node["nk"] = len(node["kids"])
        if node["kind"] != "Other":
            node["own"] = sorted(set(node["own"]) | {a for a in RT.INHERITABLE if rng.random() < (0.3 if node["kind"] == "Pages" else 0.15)})
    return g


def big_document(rng, n, back):
    """realised with its own value scheme (hundreds of sources): values are unique per (attribute, node)"""
    from ..realise.pdfwriter import Name, Ref, Revision, build, type1_font
    g = random_graph(rng, n, back)
    objs = {1: {"Type": Name("Catalog"), "Pages": Ref(2)}, len(g) + 2: type1_font("Helvetica")}
    fref = Ref(len(g) + 2)
    if rng.random() < 0.5:
        objs[1]["Rotate"] = 90
    for lab, node in enumerate(g, 1):
        d = {"Type": Name(node["kind"])} if node["kind"] != "Other" else {"Kids": [Ref(2)]}
        if node["kind"] == "Pages":
            d["Kids"] = [Ref(k + 1) for k in node["kids"]]
            d["Count"] = len(node["kids"])
        if node["kind"] != "Other" and rng.random() < 0.2:
            d["Annots"] = [Ref(len(g) + 2)]         # also on Pages nodes: never inherited
        for a in node["own"]:
            if a == "Resources":
                d[a] = {"Font": {"F1": fref}, "ProcSet": [Name("PDF"), lab]}
            elif a == "Rotate":
                d[a] = 90 * rng.randrange(-8, 9) + rng.choice([0, 0, 0, 1])
            else:
                x, y = rng.randrange(-300, 300), rng.randrange(-300, 300)
                box = [x, y, x + rng.randrange(1, 900) + lab / 8.0, y + rng.randrange(1, 900)]
                if a == "MediaBox" and rng.random() < 0.1:
                    box = [box[2], box[3], box[0], box[1]]
                d[a] = box
        objs[lab + 1] = d
    data, _ = build([Revision(dict(sorted(objs.items())), root=Ref(1))])
    return data


def record_all(ck):
    rng = random.Random(ck.seed)
    traces = []
    unsupported = {}
    files = sorted(glob.glob("/repo/samples/**/*.pdf", recursive=True))
    if not files:
        raise MachineryError("no sample PDFs under /repo/samples")
    sources = [("sample:" + os.path.relpath(f, "/repo"), open(f, "rb").read(), PASSWORDS.get(os.path.basename(f), "")) for f in files]
    nbig = 6 if ck.tier == "quick" else 40
    for i in range(nbig):
        n = rng.choice([60, 150, 400]) if ck.tier == "quick" else rng.choice([60, 150, 400, 1200])
        back = 0.05 if i % 2 else 0      # every other one is a proper tree (the declarative reference is evaluated on those)
        sources.append(("generated:%d:n=%d:%s" % (i, n, "graph" if back else "tree"), big_document(rng, n, back), ""))
    for name, data, pw in sources:
        try:
            sels = [((), 0)]
            for _ in range(3 if ck.tier == "quick" else 8):
                hi = rng.choice([2, 5, 12, 60])
                pn = tuple(sorted(set(rng.randrange(0, hi) for _ in range(rng.randrange(0, 4)))))
                sels.append((pn, rng.choice([0, 1, 2, 3, 7, 30])))
            tr = OB.record_document(data, name, sels, password=pw, interpret=(ck.tier == "thorough" and name.startswith("sample:")))
            traces.append(tr)
        except OB.Unsupported as e:
            unsupported[name] = str(e)
        except Exception as e:      # noqa: BLE001
            # a sample the library cannot open / walk at all (wrong password, damaged file) is outside C04 (C10 / C13)
            unsupported[name] = "%s: %s" % (type(e).__name__, e)
    return traces, unsupported


def _tree_trace_run(traces, dv, tmp, tag):
    cfg = write_cfg(os.path.join(tmp, "c04_ttrace_%s.cfg" % tag), constants={"Dev": tla_set(dv) if dv else "{}"}, spec="Spec",
                    invariants=["StackSane", "MatchedInOrder"], deadlock=True)
    tf = os.path.join(tmp, "c04_ttrace_%s.json" % tag)
    with open(tf, "w") as f:
        json.dump(traces, f)
    res = run_tlc(TREE_TRACE, cfg, workers=1, env={"TRACE_FILE": tf, "JAVA_TOOL_OPTIONS": "-Xss64m"}, timeout=3600, heap="6g")
    if not res.ok and (res.violated != "deadlock" or not res.error_trace):
        raise MachineryError("page-tree trace validation failed unexpectedly: " + res.error_text[:2000])
    return res


def validate_tree_traces(ck, traces, dev, tmp, label="recorded page-tree traces"):
    """-> number of rejected traces (each reported).  A trace is a behaviour of the specification with the known
    deviations in force (as coded); one that is not is still accepted when it is a behaviour of the intended
    specification (a known deviation that has been repaired is not an alarm)."""
    tdev = [d for d in dev if d in TREE_DEVS]
    todo = [{k: t[k] for k in ("name", "tree", "cat", "pages", "sels")} for t in traces]
    rejected = 0
    first = True
    while todo:
        res = _tree_trace_run(todo, tdev, tmp, "coded")
        if ck is not None:
            ck.add_tlc(res, "%s (%d)" % (label, len(todo)))
        if res.ok:
            break
        if first and tdev:
            # not all traces are behaviours of the as-coded model: has the tree been repaired?  (one more run, all traces)
            first = False
            explained = None
            for sub in proper_subsets(tdev):
                res2 = _tree_trace_run(todo, sub, tmp, "sub")
                if ck is not None:
                    ck.add_tlc(res2, "%s against the model with deviations %s (%d)" % (label, sub, len(todo)))
                if res2.ok:
                    explained = sub
                    break
            if explained is not None:
                if ck is not None:
                    ck.note("the recorded traces follow the model with deviations %s only, where %s are listed as known (repaired in this tree?)" % (explained, tdev))
                    ck.extra["traces_explained_with_deviations"] = explained
                break
        st = res.error_trace[-1][1]
        t, k = int(st["t"]), int(st["k"])
        tr = todo[t - 1]
        todo = todo[t:]
        # /Annots is recorded too but is not one of the four attributes of the statement: a trace that is accepted
        # once the Annots values are blanked is reported as extended coverage, not as a violation
        blank = json.loads(json.dumps(tr))
        for rec_ in blank["tree"] + blank["pages"]:
            rec_["vals"]["Annots"] = 0
        blank["cat"]["Annots"] = 0
        if blank != tr and _tree_trace_run([blank], tdev, tmp, "noannots").ok:
            if ck is not None:
                note_extended(ck, "trace:annots", "the /Annots entries the pages of %s report are not their own dictionaries' (page %d of %d)"
                              % (tr["name"], k + 1, len(tr["pages"])))
            else:
                print("REJECTED (Annots only, extended coverage): " + tr["name"])
            continue
        rejected += 1
        what = ("recorded walk of %s is not a behaviour of the page-tree specification: after %d of %d pages the machine is at "
                "pc=%s call=%s, next recorded page %s" % (tr["name"], k, len(tr["pages"]), st.get("pc"), st.get("call"),
                                                         tr["pages"][k] if k < len(tr["pages"]) else "(none; end-of-trace checks: order / nearest ancestor / selection)"))
        if ck is not None:
            ck.violation("trace-rejected:tree", what, {"kind": "trace", "name": tr["name"], "matched": k, "trace": tr if len(json.dumps(tr)) < 200000 else None})
        else:
            print("REJECTED: " + what)
        if rejected >= 5:
            rejected += len(todo)
            break
    return rejected


def _geom_trace_run(events, dv, tmp, tag):
    cfg = write_cfg(os.path.join(tmp, "c04_gtrace_%s.cfg" % tag), constants={"Dev": tla_set(dv) if dv else "{}"}, spec="Spec",
                    invariants=["InRange"], deadlock=True)
    tf = os.path.join(tmp, "c04_gtrace_%s.json" % tag)
    with open(tf, "w") as f:
        json.dump([{k: e[k] for k in ("boxw", "mediabox", "rraw", "rotate", "ctm", "bbox")} for e in events], f)
    res = run_tlc(GEOM_TRACE, cfg, workers=1, env={"TRACE_FILE": tf}, timeout=3600)
    if not res.ok and (res.violated != "deadlock" or not res.error_trace):
        raise MachineryError("page-geometry trace validation failed unexpectedly: " + res.error_text[:2000])
    return res


def validate_geom_events(ck, events, dev, tmp, label="recorded process_page events"):
    """-> number of rejected events (as validate_tree_traces: as-coded model first, then the intended one)"""
    gdev = [d for d in dev if d in GEOM_DEVS]
    todo = list(events)
    rejected = 0
    first = True
    while todo:
        res = _geom_trace_run(todo, gdev, tmp, "coded")
        if ck is not None:
            ck.add_tlc(res, "%s (%d)" % (label, len(todo)))
        if res.ok:
            break
        if first and gdev:
            first = False
            explained = None
            for sub in proper_subsets(gdev):
                res2 = _geom_trace_run(todo, sub, tmp, "sub")
                if ck is not None:
                    ck.add_tlc(res2, "%s against the model with deviations %s (%d)" % (label, sub, len(todo)))
                if res2.ok:
                    explained = sub
                    break
            if explained is not None:
                if ck is not None:
                    ck.note("the recorded process_page events follow the model with deviations %s only, where %s are listed as known" % (explained, gdev))
                break
        i = int(res.error_trace[-1][1]["i"])
        e = todo[i - 1]
        todo = todo[i:]
        rejected += 1
        what = "recorded process_page event of %s is not a behaviour of the page-geometry specification: %s" % (
            e.get("name"), {k: e[k] for k in ("boxw", "mediabox", "rraw", "rotate", "ctm", "bbox")})
        if ck is not None:
            ck.violation("trace-rejected:geom", what, {"kind": "geom-event", "event": e})
        else:
            print("REJECTED: " + what)
        if rejected >= 5:
            rejected += len(todo)
            break
    return rejected


def direction_b(ck, dev):
    traces, unsupported = record_all(ck)
    if len(traces) < 20:
        raise MachineryError("only %d documents could be recorded (%s)" % (len(traces), unsupported))
    rej = validate_tree_traces(ck, traces, dev, ck.tmp)
    ck.traces += len(traces) - rej
    events = []
    for t in traces:
        for e in t["geom"]:
            e = dict(e)
            e["name"] = t["name"]
            events.append(e)
    rej_g = validate_geom_events(ck, events, dev, ck.tmp) if events else 0
    ck.traces += len(events) - rej_g
    for t in traces:
        ck.case(len(t["pages"]) + len(t["sels"]), ("B", t["name"]) if len(t["pages"]) > 1 else None)
    ck.extra["recorded_documents"] = len(traces)
    ck.extra["recorded_pages"] = sum(len(t["pages"]) for t in traces)
    ck.extra["recorded_geometry_events"] = len(events)
    ck.extra["geometry_events_not_exact_in_millipoints"] = sum(t["geom_skipped"] for t in traces)
    ck.extra["documents_outside_domain"] = unsupported
    big = max(traces, key=lambda t: len(t["tree"]))
    ck.sample({"trace": big["name"], "nodes": len(big["tree"]), "pages": len(big["pages"]), "selections": big["sels"][:3],
               "first_pages": big["pages"][:3]})


# ================================================================================================ entry points
def run(ck):
    dev = active("pages")
    ck.extra["deviations_modelled_as_coded"] = dev
    ck.rule = ("A: every terminal state of PageTree.tla (one per reachable document graph labelled in discovery order x "
               "attribute placement x page_numbers x maxpages, per configuration) realised as a PDF in one or two physical "
               "variants, and every terminal state of PageGeom.tla (MediaBox corner order x origin x size x Rotate x marker); "
               "non-trivial = at least one page and (an attribute inherited from a proper ancestor or the catalog, or a "
               "repeated / backward Kids entry, or more than one page, or a page dropped by the selection), resp. a non-zero "
               "Rotate or MediaBox origin. B: one trace per recorded document (samples + large generated trees); "
               "non-trivial = more than one page.")
    ck.assumptions = ["attribute values are represented by their defining node (each concrete value is unique to it)",
                      "Rotate that is not a multiple of 90 is only constrained to 0..359 (ISO 32000-1 requires a multiple of 90)",
                      "a missing MediaBox (required by ISO 32000-1) defaults to US Letter as the code documents; not claimed",
                      "create_pages' fallback scan of the cross-reference table when the tree yields no page is outside C04"]
    direction_a(ck, dev)
    direction_b(ck, dev)
    ck.exhaustive = True


def replay(path):
    import tempfile
    doc = json.load(open(path))
    case = unjson(doc["case"])
    dev = active("pages")
    tmp = tempfile.mkdtemp(prefix="c04replay_")
    bad = []
    try:
        kind = case.get("kind")
        if kind == "geom":
            findings, _, _ = eval_geom_batch(case["recs"], case["variant"])
            bad = findings
        elif kind == "rotation":
            findings, _, _ = eval_rotation_batch(case["recs"], case["variant"])
            bad = findings
        elif kind == "tree":
            geom = GeomTable(run_geom_tlc(None, "thorough" if case.get("config", "").startswith("simulate") else "quick", dev, tmp))
            r = eval_tree_case(case["rec"], tuple(case["attrs"]), case["variant"], case["shift"], geom, blank_mode=case.get("blank_mode", 0))
            print(json.dumps(r["sample"], indent=1, default=repr))
            bad = r["findings"]
        elif kind == "trace" and case.get("trace"):
            if validate_tree_traces(None, [case["trace"]], dev, tmp):
                bad = [("trace-rejected:tree", case["name"])]
        elif kind == "geom-event":
            if validate_geom_events(None, [case["event"]], dev, tmp):
                bad = [("trace-rejected:geom", str(case["event"]))]
        else:
            print("nothing to re-run for this replay file (TLC counterexample on the model):")
            print(case.get("tlc", "")[:3000])
            return 1
    finally:
        import shutil
        shutil.rmtree(tmp, ignore_errors=True)
    for key, what in bad:
        print("  key=%s  %s" % (key, what))
    known = known_keys("C04")
    bad = [b for b in bad if b[0] == doc["key"] or b[0] not in known]
    if bad:
        print("VIOLATION property=C04 replay=%s" % path)
    return 1 if bad else 0
