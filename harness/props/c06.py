"""C06 - simple fonts: code -> Unicode text / advance follow ToUnicode, encoding + glyph names (AGL), widths.

A. TLC checks specs/font/AGL.tla (every glyph name over a small alphabet up to a length bound: intended machine =
   declarative AGL), specs/font/SimpleFont.tla (every font dictionary of four spaces: Differences cursor machine,
   ToUnicode precedence, width windows / standard-14 metrics / Type3 scaling, built-in Type 1 encodings) and
   specs/font/FontCache.tla (get_font caching by object id).  Every name TLC enumerates goes through the real
   encodingdb.name2unicode; every font dictionary is realised as a real PDF showing all 256 codes and
   LTChar.get_text()/adv/matrix are compared with the model; every cache scenario is realised as a two-page document.
B. get_encoding / to_unichr / char_width events recorded over the fonts of the repository's sample PDFs are validated
   by TLC against specs/font/SimpleFontTrace.tla (overlay frame rule on all 256 entries, precedence, width skeleton).
Supplementary (data, not model checking): the four base-encoding tables against cp1252 / mac_roman.
"""
from __future__ import annotations

import glob
import json
import math
import os
import zlib
from concurrent.futures import ProcessPoolExecutor, ThreadPoolExecutor

from ..core import unjson
from ..deviations import active, tla_set
from ..tlc import MachineryError, SPECS, require_coverage, run_tlc, write_cfg

FONT = os.path.join(SPECS, "font")
AGL_DEVS = ["HexPrefixOnly", "ChrRange", "StripBothEnds", "CompFailAll"]
FONT_DEVS = ["DiffKeepsBase", "HeaderValueError", "Type3SkewWidth", "BuiltinStdIgnored", "BuiltinKeepsEarlier"]
NC = 8
FS = 10
TOL = 1e-9


# =============================================================================================== AGL (names)
AGL_CONFIGS = {
    # (label, alphabet, maxlen, prefix)
    "quick": [("all", "uni0DF8dx_.", 4, ""), ("uni", "0D8dxi_", 8, "uni"), ("u", "01FDu", 7, "u"),
              ("unigroups", "0D8", 11, "uni")],
    "thorough": [("all", "uni0DF8dx_.", 6, ""), ("uni", "0DF8dxin_.", 9, "uni"), ("u", "01FD8duxn_", 7, "u"),
                 ("unigroups", "0D8F", 11, "uni"), ("join", "uni0A_.", 7, "")],
}


def tla_seq(s):
    return "<<" + ", ".join('"%s"' % ch for ch in s) + ">>"


def gen_agl_module(tmp, label, alphabet, maxlen, prefix, dev):
    """MC wrapper with the glyph-list constants read from pdfminer.glyphlist (names over the alphabet)."""
    from pdfminer.glyphlist import glyphname2unicode
    names = sorted(k for k in glyphname2unicode if 0 < len(k) <= maxlen and set(k) <= set(alphabet))
    mod = "MC_AGL_" + label
    cases = " [] ".join("n = %s -> <<%s>>" % (tla_seq(k), ", ".join(str(ord(c)) for c in glyphname2unicode[k]))
                        for k in names)
    body = ["---- MODULE %s ----" % mod, "EXTENDS AGL",
            "MCAlphabet == {%s}" % ", ".join('"%s"' % c for c in alphabet),
            "MCListNames == {%s}" % ", ".join(tla_seq(k) for k in names),
            "MCListVal(n) == " + ("CASE " + cases + " [] OTHER -> <<>>" if names else "<<>>"),
            "MCPrefix == " + tla_seq(prefix),
            "MCDev == " + tla_set(dev), "===="]
    path = os.path.join(tmp, mod + ".tla")
    with open(path, "w") as f:
        f.write("\n".join(body) + "\n")
    cfg = write_cfg(os.path.join(tmp, mod + ".cfg"),
                    constants={"Alphabet": "<- MCAlphabet", "MaxLen": maxlen, "Prefix": "<- MCPrefix",
                               "ListNames": "<- MCListNames", "ListVal": "<- MCListVal", "Dev": "<- MCDev",
                               "LowerHexOK": "TRUE"},
                    invariants=["AGLAgrees", "DevLocal", "ScalarsOK", "AutomatonOK"], constraints=["Emit"])
    return path, cfg, len(names)


def real_name2unicode(name):
    from pdfminer.encodingdb import name2unicode
    try:
        return ["ok", [ord(c) for c in name2unicode(name)]]
    except KeyError:
        return ["undef", []]
    except ValueError:
        return ["verr", []]


def agl_classify(ck, name, real, intended, ascoded, fired, origin):
    """real/intended/ascoded: [kind, codepoints].  Returns True when a (new) violation was reported."""
    if real == intended:
        return False
    case = {"kind": "name", "name": name, "origin": origin, "expected": intended, "observed": real}
    if real == ascoded and fired:
        bad = False
        for d in fired:
            bad |= report(ck, "dev:" + d, "name2unicode(%r) gives %s, the AGL algorithm gives %s" % (name, real, intended), case)
        return bad
    return report(ck, "name2unicode:%s->%s" % (intended[0], real[0]),
                        "name2unicode(%r) gives %s; AGL (and the model of the code) give %s" % (name, real, intended), case)


def run_agl_tlc(job):
    (label, alphabet, maxlen, prefix), tmp, dev, cov = job
    mod, cfg, nlist = gen_agl_module(tmp, label, alphabet, maxlen, prefix, dev)
    emit = os.path.join(tmp, "agl_%s.ndjson" % label)
    res = run_tlc(mod, cfg, emit=emit, coverage=cov, workers=4, timeout=3000)
    return label, res, emit, nlist


def agl_jobs(ck, dev):
    return [(c, ck.tmp, dev, ck.tier == "quick") for c in AGL_CONFIGS[ck.tier]]


def direction_a_agl(ck, jobs, futures):
    total = 0
    hits = {}
    for fut, job in zip(futures, jobs):
        (label, res, emit, nlist) = fut.result()
        (_, alphabet, maxlen, prefix) = job[0]
        ck.add_tlc(res, "AGL %s: names %s{%s}^<=%d (%d glyph-list names)" % (label, prefix, alphabet, maxlen, nlist))
        if not res.ok:
            st = res.error_trace[-1][1] if res.error_trace else {}
            report(ck, "model:AGL:" + str(res.violated),
                         "TLC: %s violated on AGL.tla for name %s" % (res.violated, st.get("name", "?")),
                         {"tlc": res.error_text[:3000]})
            continue
        if res.actions:
            need = ["AChar"] + (["ADot", "ASuffix"] if "." in alphabet else []) + (["AUnderscore"] if "_" in alphabet else [])
            require_coverage(res, need)
        n = 0
        with open(emit) as f:
            for line in f:
                r = json.loads(line)
                name = "".join(r["n"])
                intended = [r["i"]["k"], r["i"]["v"]]
                ascoded = [r["c"]["k"], r["c"]["v"]]
                real = real_name2unicode(name)
                n += 1
                agl_classify(ck, name, real, intended, ascoded, sorted(r["f"]), "AGL/" + label)
                for d in r["f"]:
                    hits[d] = hits.get(d, 0) + 1
                nontriv = intended[0] == "ok" or bool(r["f"])
                ck.case(1, ("N", name) if nontriv else None)
                if (n % 40000 == 7 or (r["f"] and hits[r["f"][0]] == 1)) and len(ck.samples) < 3:
                    ck.sample({"glyph_name": name, "agl_model": intended, "as_coded_model": ascoded, "name2unicode": real})
        os.remove(emit)
        if n != res.emitted or n == 0:
            raise MachineryError("AGL %s: TLC emitted %d names, %d replayed" % (label, res.emitted, n))
        total += n
    ck.replayed += total
    ck.extra["agl_names_replayed"] = total
    ck.extra["agl_deviation_hits_in_model"] = hits


# =============================================================================================== base tables (data)
_TABLES = None


def base_tables(verify=False):
    """{'std'|'mac'|'win'|'pdf': {byte: text}} built from latin_enc.ENCODING + glyphlist (data constants of the model).
    verify (parent process, before any font has been built): must be what EncodingDB holds - a disagreement between the
    two readings of the data is a machinery failure.  Later disagreements are what tables_intact() reports."""
    global _TABLES
    if _TABLES is None:
        from ..observe.fontrec import pristine_tables
        p = pristine_tables()
        _TABLES = {"std": p["StandardEncoding"], "mac": p["MacRomanEncoding"], "win": p["WinAnsiEncoding"],
                   "pdf": p["PDFDocEncoding"]}
    if verify:
        bad = tables_intact()
        if bad:
            raise MachineryError("base-encoding table %s rebuilt from latin_enc differs from EncodingDB's" % bad)
    return _TABLES


def tables_intact():
    """-> names of EncodingDB's shared class-level tables that are no longer what latin_enc prescribes (FontSeq.tla
    SharedUnchanged evaluated on the real process state)"""
    from pdfminer.encodingdb import EncodingDB
    t = base_tables()
    real = {"std": EncodingDB.std2unicode, "mac": EncodingDB.mac2unicode, "win": EncodingDB.win2unicode,
            "pdf": EncodingDB.pdf2unicode}
    return [k for k in sorted(t) if t[k] != real[k]]


def restore_tables():
    """after a reported modification: put the shared tables back so that one defect is not reported once per later font"""
    from pdfminer.encodingdb import EncodingDB
    t = base_tables()
    for k, d in (("std", EncodingDB.std2unicode), ("mac", EncodingDB.mac2unicode), ("win", EncodingDB.win2unicode),
                 ("pdf", EncodingDB.pdf2unicode)):
        if d != t[k]:
            d.clear()
            d.update(t[k])


ENC_NAME = {"std": "StandardEncoding", "mac": "MacRomanEncoding", "win": "WinAnsiEncoding", "pdf": "PDFDocEncoding",
            "other": "VerifUnknownEncoding"}
# concrete representatives of the abstract glyph names / ToUnicode targets (several each; chosen by variant)
GLYPHS = {
    "gA": [("Euro", "€"), ("u1F600", "\U0001f600"), ("f_i", "fi"), ("Aacute.sc", "Á"), ("uni00410042", "AB")],
    "gB": [("uni0416", "Ж"), ("Sigma", "\u03a3"), ("afii10017", "А"), ("u0058", "X")],
    "gBad": [("foo", None), ("g123", None), ("uniD800", None), (".notdef", None), ("a12_c9", None)],
    "gErr": [("uni0041XYZW", None), ("u0041g", None), ("uni00zz", None)],
}
TARGETS = {"t0": [""], "t1": ["Z", "א", "é"], "t2": ["ffi", "\U0001d11e", "x́y"]}
STD14 = ["Helvetica", "Times-Roman", "Courier-Bold"]
FM = {"m001": [0.001, 0, 0, 0.001, 0, 0], "m01": [0.01, 0, 0, 0.01, 0, 0], "skew": [0.001, 0, 0.0005, 0.001, 0, 0]}


def check_representatives(agl_dev):
    """the literal expectations above must be what the glyph-list DATA says (a typo here is a machinery failure)"""
    from pdfminer.glyphlist import glyphname2unicode as g
    for nm, exp in (("Euro", "€"), ("Sigma", "\u03a3"), ("afii10017", "А"), ("Aacute", "Á"),
                    ("f", "f"), ("i", "i")):
        if g.get(nm) != exp:
            raise MachineryError("glyph list no longer maps %s to %r" % (nm, exp))
    for nm, _ in GLYPHS["gBad"]:
        if nm.split(".")[0] in g:
            raise MachineryError("representative %s of an unmappable name is in the glyph list" % nm)


def variant_of(rec):
    return zlib.crc32(json.dumps(rec["f"], sort_keys=True).encode()) & 0xFFFF


def pick(lst, v):
    return lst[v % len(lst)]


def eff_base(f):
    if f["enc"] == "absent":
        return "std"
    return f["base"] if f["base"] in ("std", "mac", "win", "pdf") else "std"


def uses_builtin(f):
    return f["kind"] in ("Type1", "MMType1", "TrueType") and f["enc"] == "absent" and f["file"]


def realise_simple(rec, herr_active):
    """-> (pdf bytes, expectation dict).  expectation: {'ti','tc': [256 texts], 'ai','ac': [256 advances], 'err': ..}"""
    from ..realise import fontpdf as fp
    from ..realise.pdfwriter import Name, Ref
    f = rec["f"]
    off = rec["off"]
    v = variant_of(rec)
    gname = {g: pick(GLYPHS[g], v + i) for i, g in enumerate(sorted(GLYPHS))}
    if not herr_active:
        # without the ValueError deviation a gErr name is just another unmappable name
        pass
    tgt = {t: pick(TARGETS[t], v + i) for i, t in enumerate(sorted(TARGETS))}
    tables = base_tables()
    b = eff_base(f)
    basefont = pick(STD14, v) if f["kind"] == "Std14" else "VERIFY+Custom%d" % (v % 7)
    if f.get("bname") == "tagstd":
        basefont = pick(["ABCDEF+Helvetica", "QWERTY+Times-Roman", "ZZZZZZ+Courier-Bold", "ABCDEF+Symbol"], v)
    elif f.get("bname") == "near":
        basefont = pick(["Helvetica-Foo", "helvetica", "Times", "Helvetica+ABCDEF", "ABCDE+Helvetica", "abcdef+Helvetica"], v)
    metrics = None
    if f["kind"] == "Std14":
        from pdfminer.fontmetrics import FONT_METRICS
        metrics = FONT_METRICS[basefont][1]

    def byte(c):
        return off + c - 1

    # ---- the font dictionary
    d = {"Type": Name("Font"), "Subtype": Name({"Std14": "Type1"}.get(f["kind"], f["kind"])), "BaseFont": Name(basefont)}
    extra = {}
    if f["enc"] == "name":
        d["Encoding"] = Name(ENC_NAME[f["base"]])
    elif f["enc"] == "dict":
        e = {"Type": Name("Encoding")}
        if f["base"] != "absent":
            e["BaseEncoding"] = Name(ENC_NAME[f["base"]])
        if f["diff"]:
            e["Differences"] = [byte(x["v"]) if x["t"] == "int" else Name(gname[x["g"]][0]) for x in f["diff"]]
        d["Encoding"] = e
    tu = f["tu"]
    if tu:
        ents = [(byte(i + 1), tgt[t]) for i, t in enumerate(tu) if t != "none"]
        tf = f.get("tuform", "bfchar")
        if tf == "range":       # (the increment form with an empty target is C07's dev:EmptyIncrementBase: written as bfchar)
            secs = [("bfrange", [(b, b, t)]) if t else ("bfchar", [(b, t)]) for b, t in ents]
        elif tf == "arrshort":      # declared range of three codes, array of one: only the pair that exists applies
            secs = [("bfrange_arr", [(b, min(b + 2, 255), [t])]) for b, t in ents]
        elif tf == "arrlong":       # one code, array of two: the extra element is ignored
            secs = [("bfrange_arr", [(b, b, [t, "#"])]) for b, t in ents]
        else:
            secs = [("bfchar", ents)] if ents else []
        extra[101] = fp.Stream({}, fp.tounicode_cmap(secs))
        d["ToUnicode"] = Ref(101)
    desc = None
    if f["kind"] != "Std14":
        d["FirstChar"] = byte(f["fc"])
        lc = f.get("lc", "consistent")
        if lc != "absent":
            d["LastChar"] = byte(f["fc"]) + len(f["widths"]) - 1 + {"consistent": 0, "small": -1, "large": 3}[lc]
        wf = f.get("wform", "direct")
        ws = [num(w) for w in f["widths"]]
        if wf in ("someref", "allref"):
            for i, w in enumerate(f["widths"]):
                if wf == "allref" or i % 2 == 0:
                    extra[110 + i] = num(w)               # the number as an indirect object of its own
                    ws[i] = Ref(110 + i)
        if wf == "arrayref":
            extra[109] = ws
            d["Widths"] = Ref(109)
        else:
            d["Widths"] = ws
        if f["mw"] >= 0 or f["file"] or f["kind"] != "Type3":
            desc = {"Type": Name("FontDescriptor"), "FontName": Name(basefont), "Flags": 32,
                    "FontBBox": [0, -200, 1000, 800], "ItalicAngle": 0, "Ascent": 800, "Descent": -200, "StemV": 80}
            if v % 2:       # the standard types these as numbers: real values in every second realisation
                desc.update({"FontBBox": [0.5, -200.5, 1000.5, 800.5], "ItalicAngle": -12.5, "Ascent": 800.5, "Descent": -200.5,
                             "StemV": 80.5})
            if f["mw"] >= 0:
                desc["MissingWidth"] = num(f["mw"])
    if f["file"]:
        extra[100] = fp.fontfile_stream(fp.type1_header([(byte(e["c"]), gname[e["g"]][0]) for e in f["ent"]],
                                                        standard=f["std"]))
        desc["FontFile"] = Ref(100)
    if f["kind"] == "Type3":
        d.pop("BaseFont")
        d["FontBBox"] = [0, -200, 1000, 800]
        d["FontMatrix"] = FM[f["fm"]]
        extra[102] = fp.Stream({}, b"1000 0 0 -200 1000 800 d1 0 0 500 500 re f")
        d["CharProcs"] = {"a": Ref(102)}
        d["Resources"] = {}
    if desc is not None:
        d["FontDescriptor"] = desc
    pdf = fp.doc_with_font(d, [fp.show_codes(range(256), fs=FS)], extra_objects=extra or None)

    # ---- expectations for all 256 bytes
    def text_of(val, c):
        k = val["k"]
        if k == "base":
            return tables[val["a"]][val["n"]]
        if k == "glyph":
            return gname[val["a"]][1]
        if k == "tu":
            return tgt[val["a"]]
        if k == "cid":
            return "(cid:%d)" % byte(val["n"])
        raise MachineryError("unexpected model text value %r" % (val,))

    mwv = f["mw"] / 2.0 if f["mw"] >= 0 else 0

    def adv_of(w):
        sc = {"milli": 0.001, "a": FM[f["fm"]][0], "a+c": FM[f["fm"]][0] * 1 + FM[f["fm"]][2] * 1}[w["sc"]]
        if w["src"] == "W":
            x = f["widths"][w["idx"] - 1] / 2.0
        elif w["src"] == "MW":
            x = 0 if f["kind"] == "Std14" else mwv
        else:
            x = metrics.get(text_of(w["of"], None), 0)
        return x * sc * FS

    exp = {}
    for key, tk, wk in (("i", "ti", "wi"), ("c", "tc", "wc")):
        texts = []
        advs = []
        for bt in range(256):
            c = bt - off + 1
            if 1 <= c <= NC:
                texts.append(text_of(rec[tk][c - 1], c))
                advs.append(adv_of(rec[wk][c - 1]))
            else:
                # frame: codes outside the modelled window keep the base table / have no entry
                std_lost = uses_builtin(f) and f["std"] and key == "c" and "BuiltinStdIgnored" in rec.get("devs", [])
                if (uses_builtin(f) and (not f["std"] or std_lost)) or bt not in tables[b]:
                    t = "(cid:%d)" % bt
                    defined = False
                else:
                    t = tables[b][bt]
                    defined = True
                texts.append(t)
                if f["kind"] == "Std14":
                    advs.append((metrics.get(t, 0) if defined else 0) * 0.001 * FS)
                else:
                    sc = rec[wk][0]["sc"]
                    advs.append(mwv * {"milli": 0.001, "a": FM[f["fm"]][0], "a+c": FM[f["fm"]][0] + FM[f["fm"]][2]}[sc] * FS)
        exp["t" + key] = texts
        exp["a" + key] = advs
    exp["descent"] = desc.get("Descent") if (desc is not None and f["kind"] in ("Type1", "MMType1", "TrueType")) else None
    exp["err"] = rec["err"]
    exp["hit"] = [byte(c) for c in rec["hit"]]
    if uses_builtin(f) and f["std"] and "BuiltinStdIgnored" in rec.get("devs", []):
        exp["hit"] = list(range(256))
    exp["names"] = {g: gname[g][0] for g in gname}
    return pdf, exp


def num(h):
    """a model number (written in halves, see MC_SimpleFont.tla) as the PDF number: an integer, or x.5 as a real"""
    return h // 2 if h % 2 == 0 else h / 2.0


def close(a, b):
    return math.isclose(a, b, rel_tol=TOL, abs_tol=1e-12)


def compare_simple(rec, pdf, exp):
    """-> list of findings [(key, what, detail)]; key 'dev:<Name>' for modelled deviations"""
    from ..realise import fontpdf as fp
    f = rec["f"]
    out = []
    try:
        pages = fp.chars_of(pdf)
    except Exception as e:  # noqa: BLE001 - the real code raised while showing the font
        if exp["err"] == "ValueError" and isinstance(e, ValueError):
            return [("dev:HeaderValueError", "built-in encoding name %r makes font construction raise ValueError"
                     % exp["names"]["gErr"], {"exception": repr(e)[:200]})]
        return [("exception:%s" % type(e).__name__, "showing the font raised %r" % (e,), {"exception": repr(e)[:300]})]
    if exp["err"] != "none":
        # as coded an exception was predicted, but none came: fine if the intended expectation is met
        pass
    chars = pages[0]
    if len(chars) != 256:
        return [("glyph-count", "%d glyphs reported for 256 shown codes" % len(chars), {})]
    x = 10.0
    for bt, (text, adv, m, _bb, _fn) in enumerate(chars):
        ti, tc, ai, ac = exp["ti"][bt], exp["tc"][bt], exp["ai"][bt], exp["ac"][bt]
        if text != ti:
            if text == tc and bt in exp["hit"] and uses_builtin(f) and f["std"] and "BuiltinStdIgnored" in rec.get("devs", []):
                out.append(("dev:BuiltinStdIgnored", "code %d of a font whose embedded Type 1 program declares StandardEncoding "
                            "shows %r, expected %r" % (bt, text, ti), {"code": bt, "observed": text, "expected": ti}))
            elif text == tc and bt in exp["hit"] and uses_builtin(f):
                out.append(("dev:BuiltinKeepsEarlier", "code %d renamed to an unmappable glyph by a dup/put entry of the embedded "
                            "program shows %r, expected %r" % (bt, text, ti), {"code": bt, "observed": text, "expected": ti}))
            elif text == tc and bt in exp["hit"]:
                out.append(("dev:DiffKeepsBase", "code %d named %s in Differences shows %r, expected %r" % (
                    bt, "an unmappable glyph", text, ti), {"code": bt, "observed": text, "expected": ti}))
            else:
                out.append(("text:%s" % kind_of_mismatch(rec, bt, text), "code %d: text %r, expected %r" % (bt, text, ti),
                            {"code": bt, "observed": text, "expected": ti}))
        if not close(adv, ai):
            if close(adv, ac) and f["kind"] == "Type3" and f["fm"] == "skew":
                out.append(("dev:Type3SkewWidth", "code %d: Type3 advance %r, expected %r (FontMatrix %s)" % (
                    bt, adv, ai, FM[f["fm"]]), {"code": bt, "observed": adv, "expected": ai}))
            elif close(adv, ac) and bt in exp["hit"] and text == tc:
                # the advance of the character that the Differences deviation left in place (standard-14 metric by character)
                out.append(("dev:DiffKeepsBase", "code %d: advance %r is the metric of the base-encoding character %r left in "
                            "place, expected %r" % (bt, adv, text, ai), {"code": bt, "observed": adv, "expected": ai}))
            else:
                out.append(("width:%s" % f["kind"], "code %d: advance %r, expected %r" % (bt, adv, ai),
                            {"code": bt, "observed": adv, "expected": ai}))
        if bt == 0 and exp.get("descent") is not None and not close(_bb[1], 700 + exp["descent"] * 0.001 * FS):
            # not part of C06's statement (text / advance): reported as a note by the caller
            out.append(("ext:descent", "glyph box bottom %r, expected %r from /Descent %r" % (_bb[1], 700 + exp["descent"] * 0.001 * FS,
                                                                                              exp["descent"]), {}))
        if not (close(m[4], x) and m[5] == 700 and m[:4] == (1.0, 0.0, 0.0, 1.0)):
            out.append(("matrix", "code %d: glyph matrix %r, expected origin x=%r y=700" % (bt, m, x),
                        {"code": bt, "observed": list(m), "expected_x": x}))
            x = m[4]
        x += adv
        if len(out) > 6:
            break
    return out


def kind_of_mismatch(rec, bt, text):
    f = rec["f"]
    c = bt - rec["off"] + 1
    where = "outside-window"
    if 1 <= c <= NC:
        where = "expected-" + rec["ti"][c - 1]["k"]
    return "%s:%s:%s" % (f["kind"], where, "cid" if text.startswith("(cid:") else "value")


def simple_worker(batch):
    herr, recs = batch
    res = []
    for rec in recs:
        pdf, exp = realise_simple(rec, herr)
        findings = compare_simple(rec, pdf, exp)
        bad = tables_intact()
        if bad:
            findings.append(("shared-base-table-modified", "building this font changed EncodingDB's shared %s table(s): every other "
                             "font relying on them in this process now reports different text" % "/".join(bad), {"tables": bad}))
            restore_tables()
        res.append((findings, exp["ti"][rec["off"]:rec["off"] + 3]))
    return res


SF_CONFIGS = {
    # (cfg label, font space, MaxDiff, OffWin, actions that must fire)
    "quick": [("diff", "FontsDiff", 4, 124), ("prec", "FontsPrec", 4, 124), ("width", "FontsWidth", 4, 124),
              ("builtin", "FontsBuiltin", 4, 124)],
    "thorough": [("diff", "FontsDiff", 5, 124), ("prec", "FontsPrec", 4, 124), ("width", "FontsWidth", 4, 124),
                 ("builtin", "FontsBuiltin", 4, 124), ("diff", "FontsDiff", 4, 60), ("prec", "FontsPrec", 4, 160),
                 ("width", "FontsWidth", 4, 248), ("builtin", "FontsBuiltin", 4, 32), ("diff", "FontsDiff", 3, 248)],
}
SF_NEED = {"diff": ["AWidths", "ASelectBase", "ADiffInt", "ADiffName", "ADiffUnmapped", "ADiffEnd", "AToUnicode"],
           "prec": ["ASelectBase", "ADiffInt", "ADiffName", "ADiffUnmapped", "AToUnicode"],
           "width": ["AWidths", "ASelectBase", "AToUnicode"],
           "builtin": ["ABuiltinEntry", "ABuiltinEnd", "AToUnicode"]}


def gen_sf_module(tmp, tag, offwin):
    tables = base_tables()
    pairs = []
    for b, t in tables.items():
        for bt in list(range(0, NC)) + list(range(offwin, offwin + NC)):
            if bt in t:
                pairs.append('<<"%s", %d>>' % (b, bt))
    mod = "MC_SimpleFont_" + tag
    path = os.path.join(tmp, mod + ".tla")
    with open(path, "w") as f:
        f.write("---- MODULE %s ----\nEXTENDS MC_SimpleFont\nMCDefinedSet == {%s}\n"
                "MCDefined(b, byte) == <<b, byte>> \\in MCDefinedSet\n====\n" % (mod, ", ".join(pairs)))
    return path


def run_sf_tlc(job):
    (label, space, maxdiff, offwin), tmp, dev, cov, idx = job
    tag = "%s_%d_%d" % (label, offwin, idx)
    mod = gen_sf_module(tmp, tag, offwin)
    cfg = write_cfg(os.path.join(tmp, "sf_%s.cfg" % tag),
                    constants={"NC": NC, "OffWin": offwin, "MaxDiff": maxdiff, "Fonts": "<- " + space,
                               "PrecKinds": '{"Type1"}' if cov else '{"Type1", "Type3"}',
                               "Defined": "<- MCDefined", "Dev": tla_set(dev) if dev else "<- NoDev"},
                    invariants=["DiffOverlayStep", "DiffOverlay", "Precedence", "WidthRule", "CursorInWindow",
                                "NoIntendedError", "DevLocal", "DevScale"], constraints=["Emit"])
    emit = os.path.join(tmp, "sf_%s.ndjson" % tag)
    res = run_tlc(mod, cfg, emit=emit, coverage=cov, workers=4, timeout=3000)
    return res, emit


def sf_jobs(ck, dev):
    return [(c, ck.tmp, dev, ck.tier == "quick", i) for i, c in enumerate(SF_CONFIGS[ck.tier])]


def direction_a_fonts(ck, dev, jobs, futures, ppool):
    herr = "HeaderValueError" in dev
    total = 0
    devhits = {}
    ext = {}
    for fut, job in zip(futures, jobs):
        (res, emit) = fut.result()
        (label, space, maxdiff, offwin) = job[0]
        ck.add_tlc(res, "SimpleFont %s (MaxDiff=%d, window at byte %d)" % (space, maxdiff, offwin))
        if not res.ok:
            st = res.error_trace[0][1] if res.error_trace else {}
            report(ck, "model:SimpleFont:" + str(res.violated),
                         "TLC: %s violated on SimpleFont.tla (%s)" % (res.violated, st.get("font", "?")[:300]),
                         {"tlc": res.error_text[:3000]})
            continue
        if res.actions:
            require_coverage(res, SF_NEED[label])
        recs = [json.loads(line) for line in open(emit)]
        os.remove(emit)
        if len(recs) != res.emitted or not recs:
            raise MachineryError("SimpleFont %s: TLC emitted %d fonts, %d read" % (space, res.emitted, len(recs)))
        for r in recs:
            r["devs"] = list(dev)
        chunks = [(herr, recs[i:i + 40]) for i in range(0, len(recs), 40)]
        k = 0
        for chunk, results in zip(chunks, ppool.map(simple_worker, chunks)):
            for rec, (findings, sample_texts) in zip(chunk[1], results):
                k += 1
                f = rec["f"]
                for key, what, detail in findings:
                    if key.startswith("ext:"):
                        ext[key] = ext.get(key, 0) + 1
                        if ext[key] == 1:
                            ck.note("extended coverage (outside C06's statement): %s [font: %s]" % (what, font_summary(f)))
                        continue
                    if key.startswith("dev:"):
                        devhits[key] = devhits.get(key, 0) + 1
                    report(ck, key, "%s [font: %s]" % (what, font_summary(f)), {"kind": "font", "rec": rec, "detail": detail})
                nontriv = bool(f["diff"]) or any(t != "none" for t in f["tu"]) or bool(f["ent"]) or bool(f["widths"]) \
                    or f["kind"] == "Std14"
                ck.case(256, ("F", json.dumps(f, sort_keys=True), offwin) if nontriv else None)
                if k % 900 == 5 and len(ck.samples) < 6:
                    ck.sample({"font_dictionary_model": f, "window_at_byte": rec["off"],
                               "model_text_of_window": [t["k"] + ":" + (t["a"] or str(t["n"])) for t in rec["ti"]],
                               "real_text_of_first_window_codes": sample_texts, "findings": [x[0] for x in findings]})
        total += len(recs)
    ck.replayed += total
    ck.extra["simple_fonts_realised"] = total
    ck.extra["simple_font_deviation_hits"] = devhits
    ck.extra["simple_font_extended_coverage_notes"] = ext


def font_summary(f):
    return "%s%s enc=%s/%s diff=%s tu=%s ent=%s fc=%s widths=%s(%s) mw=%s fm=%s" % (
        f["kind"], "+FontFile(StandardEncoding)" if f.get("std") else ("+FontFile" if f["file"] else ""), f["enc"], f["base"], [x["v"] if x["t"] == "int" else x["g"] for x in f["diff"]], f["tu"],
        [(e["c"], e["g"]) for e in f["ent"]], f["fc"], f["widths"],
f.get("bname", "custom") + " name/" + f.get("wform", "direct") + "/LastChar " + f.get("lc", "consistent") + "/ToUnicode as " + f.get("tuform", "bfchar"), f["mw"], f["fm"])


# =============================================================================================== extended coverage: CFF
CFF_DEVS = ["EmptyIndex3", "EscapeSplit", "Charset1AsCodes", "Charset2Assert", "EncodingSwapped", "EncodingSuppl"]


def cff_real(cs):
    """what the real code (getdict / CFFFont.INDEX / CFFFont) makes of a case -> ('none'|exception name, value) in the
    shape of the model's value"""
    import io

    from pdfminer.pdffont import CFFFont, getdict
    from ..realise import cff
    b = bytes(cs["bytes"])
    k = cs["kind"]
    try:
        if k == "int":
            return "none", getdict(b + b"\x0f").get(15, [None])[0]
        if k == "real":
            return "none", getdict(b + b"\x0f").get(15, [None])[0]
        if k == "dict":
            return "none", sorted(([op], [float(x) if isinstance(x, float) else x for x in args]) for op, args in getdict(b).items())
        if k == "index":
            fp = io.BytesIO(b + b"\xaa\xbb\x01\x02\x03\x04\x05\x06")
            idx = CFFFont.INDEX(fp)
            return "none", {"items": [list(idx[i]) for i in range(len(idx))], "used": fp.tell()}
        if k == "charset":
            blob = cff.build(cs["n"], b, bytes([0, cs["n"] - 1] + list(range(32, 31 + cs["n"]))))
            f = CFFFont("verif", io.BytesIO(blob))
            return "none", sorted([g, nm if isinstance(nm, str) else nm.decode("latin-1")] for g, nm in f.gid2name.items())
        if k == "encoding":
            n = len(cs["codes"]) + 1
            blob = cff.build(n, b"\0" + b"".join((g).to_bytes(2, "big") for g in range(1, n)), b)
            f = CFFFont("verif", io.BytesIO(blob))
            return "none", sorted([c, g] for c, g in f.code2gid.items())
    except AssertionError:
        return "AssertionError", None
    except Exception as e:  # noqa: BLE001
        return type(e).__name__, None
    raise MachineryError("unknown CFF case kind %r" % k)


def cff_model_value(cs, res, standard):
    """the model's result {err, val} in the shape cff_real produces"""
    k = cs["kind"]
    v = res["val"]
    if res["err"] != "none":
        return res["err"], None
    if k == "int":
        return "none", v
    if k == "real":
        return "none", float("".join(v))
    if k == "dict":
        return "none", sorted((list(op), [float("".join(a)) if isinstance(a, list) else a for a in args]) for op, args in v)
    if k == "index":
        return "none", {"items": [list(x) for x in v["items"]], "used": v["used"]}
    if k == "charset":
        custom = ["custom391", "custom392"]
        return "none", sorted([g, standard[sid] if sid < len(standard) else custom[sid - len(standard)]] for g, sid in v)
    return "none", sorted([c, g] for c, g in v)


def direction_cff(ck, fut):
    """EXTENDED COVERAGE - not part of C06's statement: every difference is a NOTE, never a violation."""
    from pdfminer.pdffont import CFFFont
    from ..realise import cff
    cff.self_check()
    res, emit = fut
    ck.add_tlc(res, "CFF (extended coverage): operand encodings, DICT, INDEX, charset and encoding formats")
    rep = {"cases": 0, "agree_with_reference": 0, "differ_as_named_deviation": {}, "unexplained": 0, "examples": []}
    ck.extra["cff_extended_coverage"] = rep
    if not res.ok:
        ck.note("extended coverage (CFF): TLC reports %s violated on CFF.tla" % res.violated)
        rep["model_violation"] = str(res.violated)
        return
    if res.actions:
        require_coverage(res, ["AOperand", "AReal", "ADict", "AIndex", "ACharset", "AEncoding"])
    standard = list(CFFFont.STANDARD_STRINGS)
    n = 0
    for line in open(emit):
        r = json.loads(line)
        cs = r["cs"]
        n += 1
        real = cff_real(cs)
        want = cff_model_value(cs, r["i"], standard)
        coded = cff_model_value(cs, r["c"], standard)
        if cs["kind"] == "dict":
            # the real dictionary cannot hold a two-byte operator at all: compare through the one-byte view
            real = (real[0], [x for x in real[1]] if real[1] is not None else None)
        if cs["kind"] == "index" and coded[1] and coded[1].get("used") == -1 and real[1] and real[1]["items"] == [] and real[1]["used"] != 2:
            coded = real            # an empty INDEX read with a third header byte: where the reader ends up is garbage
        ck.case(1, None)
        if real == want:
            rep["agree_with_reference"] += 1
        elif real == coded and r["f"]:
            for d in r["f"]:
                rep["differ_as_named_deviation"][d] = rep["differ_as_named_deviation"].get(d, 0) + 1
        else:
            rep["unexplained"] += 1
            if len(rep["examples"]) < 6:
                rep["examples"].append({"kind": cs["kind"], "bytes": bytes(cs["bytes"]).hex(), "real": repr(real)[:200],
                                        "reference": repr(want)[:200]})
    os.remove(emit)
    if n != res.emitted or n == 0:
        raise MachineryError("CFF: emitted %d, replayed %d" % (res.emitted, n))
    rep["cases"] = n
    ck.replayed += n
    for d, c in sorted(rep["differ_as_named_deviation"].items()):
        ck.note("extended coverage (CFF, outside C06's statement): %d generated structures are read differently from TN 5176 - named deviation %s" % (c, d))
    if rep["unexplained"]:
        ck.note("extended coverage (CFF, outside C06's statement): %d generated structures where the real reader matches neither the "
                "reference nor the modelled deviations, e.g. %s" % (rep["unexplained"], rep["examples"][0]))
    # through a font dictionary: a Type1C program whose built-in encoding gives code 65 the glyph "B" (SID 35), no /Encoding
    try:
        from ..realise import fontpdf as fp
        from ..realise.pdfwriter import Name, Ref, Stream
        blob = cff.build(2, b"\0" + (35).to_bytes(2, "big"), bytes([0, 1, 65]))
        if cff.parse(blob)["encoding"] != {65: 1} or cff.parse(blob)["charset"] != [35] or standard[35] != "B":
            raise MachineryError("CFF probe blob is not what it should be")
        d = {"Type": Name("Font"), "Subtype": Name("Type1"), "BaseFont": Name("VERIFC+Cff"), "FirstChar": 65, "LastChar": 65,
             "Widths": [500], "FontDescriptor": {"Type": Name("FontDescriptor"), "FontName": Name("VERIFC+Cff"), "Flags": 4,
                                                 "FontBBox": [0, -200, 1000, 800], "FontFile3": Ref(100)}}
        pdf = fp.doc_with_font(d, [fp.show_codes([65])], extra_objects={100: Stream({"Subtype": Name("Type1C")}, blob)})
        got = fp.chars_of(pdf)[0][0][0]
        rep["type1c_font_dictionary_probe"] = {"built_in_encoding_says": "B", "reported": got}
        if got != "B":
            ck.note("extended coverage (CFF): a Type1C font without /Encoding whose program encodes code 65 as glyph /B reports %r - "
                    "the built-in encoding of a FontFile3 program is never consulted (only FontFile is)" % got)
    except MachineryError:
        raise
    except Exception as e:  # noqa: BLE001
        rep["type1c_font_dictionary_probe"] = {"exception": repr(e)[:200]}
    # the Type1C programs of the repository samples: pdfminer's CFFFont against the reader written from TN 5176
    from ..observe import ttrec
    import io
    surv = {"programs": 0, "glyph_names_agree": 0, "codes_agree": 0, "predefined_charset_not_read": 0,
            "predefined_encoding_not_read": 0, "exception": {}, "differ": 0}
    files = sorted(glob.glob("/repo/samples/**/*.pdf", recursive=True))
    for fpath in files:
        if os.path.getsize(fpath) > (6 << 20 if ck.tier == "quick" else 80 << 20):
            continue
        for origin, data in ttrec.embedded_programs(fpath, key="FontFile3"):
            try:
                ref = cff.parse(data)
            except Exception:  # noqa: BLE001 - CID-keyed CFF (ROS) and the like: outside this reader
                continue
            surv["programs"] += 1
            try:
                f = CFFFont("verif", io.BytesIO(data))
            except BaseException as e:  # noqa: BLE001
                surv["exception"][type(e).__name__] = surv["exception"].get(type(e).__name__, 0) + 1
                continue
            if isinstance(ref["charset"], str):
                surv["predefined_charset_not_read"] += 1
            else:
                exp = {g + 1: cff.sid_name(sid, ref["strings"], standard) for g, sid in enumerate(ref["charset"])}
                if exp == dict(f.gid2name):
                    surv["glyph_names_agree"] += 1
                else:
                    surv["differ"] += 1
            if isinstance(ref["encoding"], str):
                surv["predefined_encoding_not_read"] += 1
            elif {c: g for c, g in ref["encoding"].items() if isinstance(g, int)} == dict(f.code2gid):
                surv["codes_agree"] += 1
    rep["sample_type1c_programs"] = surv
    ck.note("extended coverage (CFF): %d Type1C programs of the samples: glyph names agree with TN 5176 on %d, differ on %d, "
            "predefined charset not read on %d, encoding array agrees on %d, predefined encoding not read on %d, exceptions %s; "
            "text extraction never consults CFFFont (a Type1C font without /Encoding falls back to StandardEncoding)"
            % (surv["programs"], surv["glyph_names_agree"], surv["differ"], surv["predefined_charset_not_read"],
               surv["codes_agree"], surv["predefined_encoding_not_read"], surv["exception"]))


# =============================================================================================== sequences of fonts
SEQ_GLYPH = {"gA": ("Euro", "\u20ac"), "gB": ("Sigma", "\u03a3")}
SEQ_BYTES = [124, 125, 126]           # window codes 1..3: defined, and equal, in StandardEncoding and WinAnsiEncoding
SEQ_SHOW = SEQ_BYTES + [65]


def seq_doc(specs):
    """page i binds F1..Fi (indirect font objects, so that with caching the font object built on page j is re-read on
    every later page) and shows SEQ_SHOW with each of them, one line per font"""
    from ..realise import fontpdf as fp
    from ..realise.pdfwriter import Name, Ref, Revision, Stream, build
    objs = {1: {"Type": Name("Catalog"), "Pages": Ref(2)}}
    for j, sp in enumerate(specs):
        d = {"Type": Name("Font"), "Subtype": Name("Type1"), "BaseFont": Name("VERIFS+Seq%d" % j), "FirstChar": 124,
             "LastChar": 126, "Widths": [600, 0, 725]}
        desc = {"Type": Name("FontDescriptor"), "FontName": Name("VERIFS+Seq%d" % j), "Flags": 32,
                "FontBBox": [0, -200, 1000, 800], "MissingWidth": 250}
        ents = [(SEQ_BYTES[c - 1], SEQ_GLYPH[g][0]) for (c, g) in sp["ents"]]
        if sp["k"] == "plain":
            if sp["base"] == "stdname":
                d["Encoding"] = Name("StandardEncoding")
            elif sp["base"] == "win":
                d["Encoding"] = Name("WinAnsiEncoding")
        elif sp["k"] == "diff":
            e = {"Type": Name("Encoding"), "Differences": [x for (b, n) in ents for x in (b, Name(n))]}
            if sp["base"] == "win":
                e["BaseEncoding"] = Name("WinAnsiEncoding")
            d["Encoding"] = e
        else:
            objs[40 + j] = fp.fontfile_stream(fp.type1_header(ents, fontname="Seq%d" % j, standard=sp["std"]))
            desc["FontFile"] = Ref(40 + j)
        d["FontDescriptor"] = desc
        objs[20 + j] = d
    kids = []
    for i in range(len(specs)):
        parts = [b"BT"]
        for j in range(i + 1):
            parts.append(b"/F%d 10 Tf 1 0 0 1 10 %d Tm" % (j + 1, 700 - 20 * j))
            parts += [b"<%02x> Tj" % c for c in SEQ_SHOW]
        parts.append(b"ET")
        objs[60 + 2 * i] = Stream({}, b" ".join(parts))
        objs[61 + 2 * i] = {"Type": Name("Page"), "Parent": Ref(2), "MediaBox": [0, 0, 612, 792],
                            "Resources": {"Font": {"F%d" % (j + 1): Ref(20 + j) for j in range(i + 1)}},
                            "Contents": Ref(60 + 2 * i)}
        kids.append(Ref(61 + 2 * i))
    objs[2] = {"Type": Name("Pages"), "Kids": kids, "Count": len(kids)}
    pdf, _ = build([Revision(dict(sorted(objs.items())), root=Ref(1))])
    return pdf


def seq_expected(spec, tab):
    """texts of SEQ_SHOW for one font, from the model's table for it (= its dictionary read in isolation)"""
    t = base_tables()
    out = []
    for c, b in enumerate(SEQ_BYTES):
        kind, a = tab[c]
        if kind in ("std", "win"):
            out.append(t[kind][b])
        elif kind == "glyph":
            out.append(SEQ_GLYPH[a][1])
        else:
            out.append("(cid:%d)" % b)
    # frame: code 65 lies outside the modelled codes
    out.append("A" if spec["k"] != "prog" or spec["std"] else "(cid:65)")
    return out


def seq_worker(batch):
    from ..realise import fontpdf as fp
    res = []
    for n, r in batch:
        findings = []
        specs, tabs = r["specs"], r["tabs"]
        pdf = seq_doc(specs)
        try:
            pages = fp.chars_of(pdf, caching=(n % 2 == 0))
        except Exception as e:  # noqa: BLE001
            res.append([("exception:%s" % type(e).__name__, "font sequence %s raised %r" % (seq_summary(specs), e), {})])
            continue
        for i, chars in enumerate(pages):
            got = [c[0] for c in chars]
            want = [x for j in range(i + 1) for x in seq_expected(specs[j], tabs[j])]
            if got != want:
                # which font of the page reports something its own dictionary does not prescribe
                j = next((k // len(SEQ_SHOW) for k in range(min(len(got), len(want))) if got[k] != want[k]), 0)
                findings.append(("font-sequence:%s-changed-by-%s" % (specs[j]["k"], "/".join(sorted({s["k"] + ("+std" if s["std"] else "")
                                                                                                      for k2, s in enumerate(specs) if k2 != j}))),
                                 "fonts %s built in one process (caching=%s): on page %d font %d reports %r, its own dictionary "
                                 "prescribes %r" % (seq_summary(specs), n % 2 == 0, i + 1, j + 1,
                                                    got[j * len(SEQ_SHOW):(j + 1) * len(SEQ_SHOW)],
                                                    want[j * len(SEQ_SHOW):(j + 1) * len(SEQ_SHOW)]), {}))
                break
        bad = tables_intact()
        if bad:
            findings.append(("shared-base-table-modified", "building the fonts %s changed EncodingDB's shared %s table(s)"
                             % (seq_summary(specs), "/".join(bad)), {"tables": bad}))
            restore_tables()
        res.append(findings)
    return res


def seq_summary(specs):
    def one(s):
        if s["k"] == "plain":
            return "plain(%s)" % s["base"]
        if s["k"] == "diff":
            return "Differences(%s,%s)" % (s["base"], s["ents"])
        return "program(%s%s)" % ("StandardEncoding def + " if s["std"] else "", s["ents"])
    return "[" + ", ".join(one(s) for s in specs) + "]"


def direction_a_seq(ck, ppool):
    cfg = write_cfg(os.path.join(ck.tmp, "fontseq.cfg"),
                    constants={"Codes": "<- MCCodes", "Specs": "<- MCSpecs", "MaxFonts": 3, "Dev": "<- NoDev"},
                    spec="Spec", invariants=["SharedUnchanged", "Isolated"], properties=["Frame"], constraints=["Emit"])
    emit = os.path.join(ck.tmp, "fontseq.ndjson")
    res = run_tlc(os.path.join(FONT, "MC_FontSeq.tla"), cfg, emit=emit, coverage=True, workers=2, timeout=900)
    ck.add_tlc(res, "FontSeq: sequences of <= 3 fonts over 9 kinds of dictionary, shared base tables as state")
    if not res.ok:
        report(ck, "model:FontSeq:" + str(res.violated), "TLC: %s violated on FontSeq.tla" % res.violated,
               {"tlc": res.error_text[:3000]})
        return
    require_coverage(res, ["AAlias", "ACopyDiff", "AProgram"])
    recs = [json.loads(line) for line in open(emit)]
    os.remove(emit)
    if len(recs) != res.emitted or not recs:
        raise MachineryError("FontSeq: emitted %d, read %d" % (res.emitted, len(recs)))
    items = list(enumerate(recs))
    chunks = [items[i:i + 30] for i in range(0, len(items), 30)]
    k = 0
    for chunk, results in zip(chunks, ppool.map(seq_worker, chunks)):
        for (n, r), findings in zip(chunk, results):
            k += 1
            for key, what, detail in findings:
                report(ck, key, what, {"kind": "fontseq", "rec": r, "n": n})
            nontriv = len(r["specs"]) > 1 and any(s["k"] == "prog" for s in r["specs"])
            ck.case(len(SEQ_SHOW) * len(r["specs"]) * (len(r["specs"]) + 1) // 2,
                    ("Q", json.dumps(r["specs"], sort_keys=True)) if nontriv else None)
            if k % 400 == 7 and len(ck.samples) < 8:
                ck.sample({"font_sequence": seq_summary(r["specs"]), "model_tables": r["tabs"], "findings": [f[0] for f in findings]})
    ck.replayed += len(recs)
    ck.extra["font_sequences_replayed"] = len(recs)


# =============================================================================================== get_font caching
def cache_doc(bind):
    """bind: [{name: source} per page]; sources o5/o6 are indirect font objects, iA/iB direct dictionaries.
    Specification A shows code 0x41 as 'Euro', B as 'Sigma' (distinguishable by text and by advance)."""
    from ..realise.pdfwriter import Name, Ref, Revision, Stream, build

    def spec(s):
        glyph, w = (("Euro", 400), ("Sigma", 700))[s == "B"]
        return {"Type": Name("Font"), "Subtype": Name("Type1"), "BaseFont": Name("Verif" + s), "FirstChar": 65,
                "LastChar": 65, "Widths": [w],
                "FontDescriptor": {"Type": Name("FontDescriptor"), "FontName": Name("Verif" + s), "Flags": 32,
                                   "FontBBox": [0, 0, 1000, 1000], "MissingWidth": 100},
                "Encoding": {"Type": Name("Encoding"), "Differences": [65, Name(glyph)]}}
    specof = {"o5": "A", "iA": "A", "o6": "B", "iB": "B"}
    objs = {1: {"Type": Name("Catalog"), "Pages": Ref(2)}, 5: spec("A"), 6: spec("B")}
    kids = []
    n = 10
    for pg in bind:
        fonts = {}
        for name, src in sorted(pg.items()):
            fonts[name] = Ref(int(src[1:])) if src.startswith("o") else spec(specof[src])
        content = b"BT " + b" ".join(b"/%s 10 Tf 1 0 0 1 10 %d Tm <41> Tj" % (nm.encode(), 700 - 20 * i)
                                      for i, nm in enumerate(sorted(pg))) + b" ET"
        objs[n] = Stream({}, content)
        objs[n + 1] = {"Type": Name("Page"), "Parent": Ref(2), "MediaBox": [0, 0, 612, 792],
                       "Resources": {"Font": fonts}, "Contents": Ref(n)}
        kids.append(Ref(n + 1))
        n += 2
    objs[2] = {"Type": Name("Pages"), "Kids": kids, "Count": len(kids)}
    pdf, _ = build([Revision(dict(sorted(objs.items())), root=Ref(1))])
    return pdf


def direction_a_cache(ck):
    from ..realise import fontpdf as fp
    cfg = os.path.join(FONT, "MC_FontCache.cfg")
    cfg2 = os.path.join(ck.tmp, "fontcache.cfg")
    with open(cfg) as f, open(cfg2, "w") as g:
        g.write(f.read() + "CONSTRAINT Emit\n")
    emit = os.path.join(ck.tmp, "fontcache.ndjson")
    res = run_tlc(os.path.join(FONT, "MC_FontCache.tla"), cfg2, emit=emit, coverage=True, workers=2, timeout=600)
    ck.add_tlc(res, "FontCache: 2 pages x 2 names x {2 objects, 2 inline} x caching on/off")
    if not res.ok:
        report(ck, "model:FontCache:" + str(res.violated), "TLC: %s violated on FontCache.tla" % res.violated,
                     {"tlc": res.error_text[:3000]})
        return
    require_coverage(res, ["AHit", "ACreate", "AInline"])
    want = {"A": ("€", 4.0), "B": ("\u03a3", 7.0)}
    n = 0
    for line in open(emit):
        r = json.loads(line)
        n += 1
        pdf = cache_doc(r["bind"])
        pages = fp.chars_of(pdf, caching=r["caching"])
        for p, (pg, outp) in enumerate(zip(r["bind"], r["out"])):
            got = [(t, a) for (t, a, _m, _b, _f) in pages[p]]
            exp = [want[outp[nm]] for nm in sorted(pg)]
            ok = len(got) == len(exp) and all(g[0] == e[0] and close(g[1], e[1]) for g, e in zip(got, exp))
            ck.case(len(exp), ("C", json.dumps(r["bind"]), r["caching"], p) if len(set(pg.values())) > 1 or p else None)
            if not ok:
                report(ck, "get_font-cache", "page %d of a document binding %s (caching=%s): glyphs %r, expected %r"
                             % (p + 1, r["bind"], r["caching"], got, exp), {"kind": "cache", "rec": r})
        if n % 200 == 3:
            ck.sample({"cache_scenario": r["bind"], "caching": r["caching"], "fonts_handed_out": r["out"]})
    if n != res.emitted or n == 0:
        raise MachineryError("FontCache: emitted %d scenarios, replayed %d" % (res.emitted, n))
    ck.replayed += n
    ck.extra["cache_scenarios_replayed"] = n


# =============================================================================================== direction B
def sample_font_traces(args):
    path, deep = args
    from ..observe import fontrec
    out = []
    for origin, font in fontrec.fonts_of_file(path, deep=deep, maxpages=4 if not deep else 12):
        if font is None:
            continue
        tr = fontrec.simple_font_trace(os.path.relpath(origin, "/repo"), font)
        if tr is not None:
            out.append(tr)
    return out


def direction_b(ck, dev, ppool):
    files = sorted(glob.glob("/repo/samples/**/*.pdf", recursive=True))
    files = [f for f in files if os.path.getsize(f) < (3 << 20 if ck.tier == "quick" else 40 << 20)]
    limit = 70 if ck.tier == "quick" else 100000
    traces = []
    for res in ppool.map(sample_font_traces, [(f, ck.tier == "thorough") for f in files]):
        traces.extend(res)
    # distinct fonts only (the same font dictionary appears in many samples)
    seen = set()
    uniq = []
    for tr in traces:
        key = zlib.crc32(json.dumps([tr["diff"], tr["enc"], tr["final"], tr["codes"]], sort_keys=True).encode())
        if key not in seen:
            seen.add(key)
            uniq.append(tr)
    uniq.sort(key=lambda t: (-len(t["diff"]), t["origin"]))
    uniq = uniq[:limit]
    if not uniq:
        raise MachineryError("no simple-font traces recorded from the samples")
    tables = base_tables()
    for tr in uniq:
        ck.case(256, ("B", tr["origin"]) if tr["diff"] or any(c["hastu"] for c in tr["codes"]) else None)
        # the known Differences deviation on real documents: an unmapped name over a code the base table defines
        if tr["unmapped_diff_names"] and "DiffKeepsBase" in dev:
            cur = 0
            for e in tr["diff"]:
                if e["t"] == "int":
                    cur = e["v"]
                else:
                    if not e["ok"] and 0 <= cur < 256 and tr["base"][cur] and not tr["codes"][cur]["hastu"]:
                        report(ck, "dev:DiffKeepsBase", "sample font %s: Differences name /%s (no Unicode value) at code %d "
                                     "shows base-encoding text %r" % (tr["origin"], e.get("name"), cur,
                                                                      "".join(map(chr, tr["base"][cur]))),
                                     {"kind": "sample", "origin": tr["origin"]})
                        break
                    cur += 1
    rejected = validate_font_traces(ck, uniq, dev)
    ck.traces += len(uniq) - rejected
    ck.extra["sample_fonts_traced"] = len(uniq)
    ck.extra["sample_fonts_with_differences"] = sum(1 for t in uniq if t["diff"])
    ck.extra["sample_fonts_with_tounicode"] = sum(1 for t in uniq if any(c["hastu"] for c in t["codes"]))
    ck.extra["trace_events"] = sum(len(t["diff"]) + 512 + 1 for t in uniq)
    del tables


def validate_font_traces(ck, traces, dev, label="trace validation"):
    spec = os.path.join(FONT, "SimpleFontTrace.tla")
    cfg = write_cfg(os.path.join(ck.tmp, "sftrace.cfg"), constants={"Dev": tla_set([d for d in dev if d == "DiffKeepsBase"])},
                    spec="Spec", invariants=["CursorSane", "TableShape"], deadlock=True)
    tf = os.path.join(ck.tmp, "sftrace.json")
    todo = list(traces)
    rejected = 0
    while todo:
        with open(tf, "w") as f:
            json.dump([{k: v for k, v in t.items() if k not in ("origin", "kind", "encname", "unmapped_diff_names")}
                       for t in todo], f)
        res = run_tlc(spec, cfg, workers=1, env={"TRACE_FILE": tf}, timeout=3000, heap="6g")
        ck.add_tlc(res, "%s of %d recorded simple-font traces" % (label, len(todo)))
        if res.ok:
            break
        if res.violated != "deadlock" or not res.error_trace:
            raise MachineryError("font trace validation failed unexpectedly: " + res.error_text[:2000])
        st = res.error_trace[-1][1]
        t, k, ph = int(st["t"]), int(st["k"]), st["ph"].strip('"')
        tr = todo[t - 1]
        rejected += 1
        what = {"start": "malformed record, or EncodingDB's shared base tables were changed while the font was built / are not what latin_enc prescribes", "diff": "the recorded get_encoding table is not the Differences overlay of the base table",
                "codes": "to_unichr/char_width event of code %d breaks the precedence / width rule: %s"
                         % (k, json.dumps(tr["codes"][k]) if k < 256 else "?")}.get(ph, ph)
        report(ck, "trace-rejected:" + ph, "recorded font trace of %s (%s) is not a behaviour of SimpleFontTrace: %s"
                     % (tr["origin"], tr["kind"], what), {"kind": "trace", "origin": tr["origin"], "phase": ph, "index": k})
        todo = todo[t:]
        if rejected >= 3 and todo:
            ck.note("%d recorded font traces left unexamined after 3 rejections" % len(todo))
            rejected += len(todo)
            break
    return rejected


# =============================================================================================== data check
def table_data_check(ck):
    """latin_enc tables against the platform codecs - a DATA cross-check, reported separately, never a verdict"""
    t = base_tables()
    rep = {}
    for b, codec in (("win", "cp1252"), ("mac", "mac_roman")):
        diff = []
        n = 0
        for bt in range(32, 256):
            try:
                u = bytes([bt]).decode(codec)
            except UnicodeDecodeError:
                u = None
            if bt in t[b] and u is not None:
                n += 1
                if t[b][bt] != u:
                    diff.append({"byte": bt, "pdfminer": t[b][bt], "codec": u})
        rep["%s_vs_%s" % (b, codec)] = {"compared": n, "differences": diff}
        if diff:
            ck.note("data check %s vs %s: %d of %d entries differ (reported, not a verdict): %s"
                    % (b, codec, len(diff), n, diff[:4]))
    ck.extra["table_data_check"] = rep


# =============================================================================================== entry points
def report(ck, key, what, case=None):
    """ck.violation with a cap: every unknown violation writes a replay file; a badly broken tree yields tens of
    thousands of them, so after 60 only a counter is kept (the verdict is already decided)"""
    if ck.is_known(key) or len(ck.violations) < 60:
        return ck.violation(key, what, case)
    ck.extra["violations_beyond_the_first_60"] = ck.extra.get("violations_beyond_the_first_60", 0) + 1
    return True


def quiet():
    from ..realise.fontpdf import quiet as q
    q()


def run(ck):
    quiet()
    agl_dev = [d for d in active("agl") if d in AGL_DEVS]
    font_dev = [d for d in active("font") if d in FONT_DEVS]
    ck.extra["deviations_modelled_as_coded"] = {"agl": agl_dev, "font": font_dev}
    ck.rule = ("A: (i) every glyph name over per-context alphabets up to the configured length (TLC states of AGL.tla), each "
               "through name2unicode; non-trivial = AGL gives a value or a named deviation fires. (ii) every font dictionary "
               "of the four SimpleFont.tla spaces (Differences arrays, base-encoding naming x ToUnicode maps, width windows, "
               "built-in encodings), each realised as a PDF showing all 256 codes (256 evaluations per font); non-trivial = "
               "has Differences, ToUnicode entries, built-in entries, Widths or standard-14 metrics. (iii) every FontCache "
               "scenario as a two-page document and every FontSeq sequence of <= 3 fonts as one document whose page i shows "
               "fonts 1..i (each font re-read after every later construction; EncodingDB's shared tables compared with "
               "latin_enc after every document); non-trivial = more than one font, one of them with an embedded program. B: one trace per distinct simple font of the repository samples, 256 codes "
               "each; non-trivial = has Differences or ToUnicode entries.")
    ck.assumptions = ["contents of glyphlist, latin_enc.ENCODING and fontmetrics are constants read from the package (DESIGN 1.1)",
                      "abstract glyph names / ToUnicode targets are represented by 3-5 concrete members each",
                      "lower-case hexadecimal digits in uniXXXX / uXXXX names are accepted (documented by tests/test_encodingdb.py)",
                      "standard-14 fonts: the metric is looked up by the reported character; their own Widths are unconstrained",
                      "ToUnicode CMap syntax is C07's subject; here ToUnicode maps are bfchar sections"]
    check_representatives(agl_dev)
    base_tables(verify=True)
    with ThreadPoolExecutor(5) as tpool, ProcessPoolExecutor(min(16, os.cpu_count() or 4), initializer=quiet) as ppool:
        ja, js = agl_jobs(ck, agl_dev), sf_jobs(ck, font_dev)
        fa = [tpool.submit(run_agl_tlc, j) for j in ja]
        fs = [tpool.submit(run_sf_tlc, j) for j in js]
        cff_cfg = write_cfg(os.path.join(ck.tmp, "cff.cfg"),
                            constants={"MaxSeq": 2 if ck.tier == "quick" else 3, "Cases": "<- MCCases", "Dev": "<- AllDev"},
                            invariants=["RoundTrip", "MachineRef", "DevLocal"], constraints=["Emit"])
        cff_emit = os.path.join(ck.tmp, "cff.ndjson")
        fcff = tpool.submit(run_tlc, os.path.join(FONT, "MC_CFF.tla"), cff_cfg, emit=cff_emit, coverage=True, workers=2, timeout=1800)
        import time
        t0 = time.time()
        ph = {}
        direction_a_agl(ck, ja, fa)
        ph["agl"] = round(time.time() - t0, 1)
        direction_a_fonts(ck, font_dev, js, fs, ppool)
        ph["fonts"] = round(time.time() - t0, 1)
        direction_a_seq(ck, ppool)
        ph["sequences"] = round(time.time() - t0, 1)
        direction_a_cache(ck)
        ph["cache"] = round(time.time() - t0, 1)
        direction_cff(ck, (fcff.result(), cff_emit))
        ph["cff"] = round(time.time() - t0, 1)
        direction_b(ck, font_dev, ppool)
        ph["traces"] = round(time.time() - t0, 1)
        ck.extra["phase_finished_at_s"] = ph
    table_data_check(ck)
    ck.exhaustive = True


def replay(path):
    doc = json.load(open(path))
    case = unjson(doc["case"])
    kind = case.get("kind")
    bad = False
    if kind == "name":
        real = real_name2unicode(case["name"])
        print("name2unicode(%r) -> %s ; expected (AGL) %s" % (case["name"], real, case["expected"]))
        bad = real != case["expected"]
    elif kind == "font":
        rec = case["rec"]
        pdf, exp = realise_simple(rec, True)
        fs = compare_simple(rec, pdf, exp)
        for key, what, _ in fs:
            print(key, what)
        bad = bool(fs)
    elif kind == "fontseq":
        fnd = seq_worker([(case.get("n", 0), case["rec"])])[0]
        for f in fnd:
            print(f[0], f[1])
        bad = bool(fnd)
    elif kind == "cache":
        from ..realise import fontpdf as fp
        r = case["rec"]
        pages = fp.chars_of(cache_doc(r["bind"]), caching=r["caching"])
        want = {"A": "€", "B": "\u03a3"}
        for p, (pg, outp) in enumerate(zip(r["bind"], r["out"])):
            got = [t for (t, *_rest) in pages[p]]
            exp = [want[outp[nm]] for nm in sorted(pg)]
            print("page", p + 1, got, exp)
            bad |= got != exp
    else:
        print("replay of %r cases: re-run bin/check C06 (sample traces are re-recorded from /repo/samples)" % kind)
        return 2
    if bad:
        print("VIOLATION property=C06 replay=%s" % path)
    return 1 if bad else 0
