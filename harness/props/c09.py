"""C09 - layout grouping follows the documented margins; the result is scale-invariant.

A. TLC enumerates glyph arrangements with every gap / overlap / offset at threshold-1, threshold, threshold+1 units x
   LAParams grids on specs/layout/Layout.tla, checking JoinIff, SpaceIff (lines = the reference lines read from the
   documentation), OverlapReadings, BoxIffConnected (boxes = connected components of the documented neighbour
   relation), ColumnOrder, ScaleInvariant (every decision and stage outcome evaluated at scales 2 and 8 inside the
   model) in every state; the id() tie-break of group_textboxes is a nondeterministic choice and the outcomes are
   grouped per arrangement (TieBreakIrrelevant).  Every completed analysis is realised on the real code (LTChar objects
   and generated PDFs) at scales 1, 8, 1/4, 64 and compared; the real outcomes at different scales are compared with
   each other.
B. analyze() of pages of the repository samples is recorded; every arithmetic predicate is recomputed with
   fractions.Fraction and specs/layout/LayoutTrace.tla checks the grouping skeleton on those facts.
"""
import json

from ..core import unjson
from ..deviations import active
from ..observe import layoutcheck as LC
from ..observe import layoutrun as O
from ..realise import layout_real as R

PID = "C09"


def run(ck):
    dev = active("layout")
    ck.extra["deviations_modelled_as_coded"] = dev
    ck.rule = ("A: every arrangement TLC reaches in the build phase of Layout.tla (moves at threshold-1/threshold/threshold+1 "
               "of line_overlap, char_margin, word_margin, line_margin) x every LAParams of the family's grid, each realised "
               "as LTChar objects at scales 1 (natural and reversed id() order), 8, 1/4, 64 and as PDF pages at scales 1 and 8; "
               "non-trivial = at least two glyphs. B: one recorded analyze call per trace; non-trivial = at least two glyphs.")
    ck.assumptions = ["'overlap' is the library's measure (smaller distance between opposite edges of intersecting intervals); "
                      "TLC shows it decides like the geometric overlap whenever line_overlap < 1 and both glyphs have a height",
                      "word_margin = 0 switches word-space insertion off",
                      "the neighbour relation is asserted for lines inside the container's bounding box (utils.Plane does not "
                      "index beyond it)",
                      "column order is asserted for column pages (ColumnPage in Layout.tla) and -1 < boxes_flow < 1; for other "
                      "pages the order inside every group follows the boxes_flow weighting; boxes_flow=None orders by the "
                      "bottom-left corner",
                      "coordinates and LAParams ratios dyadic, so binary64 evaluation is exact in direction A"]
    quick = ck.tier == "quick"
    traces = LC.record_samples(ck, PID)
    jobs = LC.trace_jobs(ck, traces, dev, PID)
    # the design as coded (named deviations of known findings switched on): TLC shows that it breaks the property
    if dev:
        jobs.append(lambda: LC.ascoded_model_run(ck, dev, ["ScaleInvariant"],
                                                 ("ParamsOver", "OverMoves", 3, "BothTr", "PageOnly", "First1", [])))
    # A: the intended design (Dev = {}) - all C09 invariants must hold; every completed analysis is replayed
    LC.direction_a(ck, PID, LC.C09_INV, [], pdf_every=3 if quick else 2, pdf_scales=[1, 8], pdf_text_every=10 ** 9,
                   extra_jobs=jobs)
    xr = LC.extra_results()
    if dev:
        res = xr.pop()
        ck.add_tlc(res, "as-coded design (Dev=%s) on a small space" % ",".join(dev))
        if res.ok:
            ck.note("as-coded specification (Dev=%s) no longer violates a C09 invariant on the small space" % dev)
        elif res.violated == "ScaleInvariant" and "GridOrderTies" in dev:
            ck.violation("dev:GridOrderTies", "TLC: ScaleInvariant violated on the as-coded design", None)
        else:
            ck.violation("model-ascoded:%s" % res.violated, "TLC: %s violated on the as-coded design" % res.violated,
                         {"tlc": res.error_text[:4000]})
    LC.finish_traces(ck, xr)
    ck.exhaustive = True


def replay(path):
    doc = json.load(open(path))
    case = unjson(doc["case"]) or {}
    if "page" not in case:
        print("replay: this finding has no realisable arrangement (%s)" % doc.get("key"))
        print(json.dumps(case)[:2000])
        return 0
    rec = {"page": [{"k": k, "bb": bb, "t": t} for k, bb, t in case["page"]], "p": case["p"], "wh": case["wh"]}
    bad = False
    outs = {}
    for scale in [R.Fraction(1), R.Fraction(case.get("scale", "1")), R.Fraction(8)]:
        cont, chars, items, la = R.analyze_direct(rec, scale, rev=bool(case.get("rev")))
        outs[scale] = R.project(cont, chars, items, scale)
        print("scale", scale)
        for e in outs[scale]:
            print("  ", e)
        for key, msg in O.c09_failures(cont, list(items), la):
            print("C09 predicate fails: %s - %s" % (key, msg))
            bad = True
    if len(set(outs.values())) > 1:
        print("outcome differs between scales")
        bad = True
    if bad:
        print("VIOLATION property=C09 replay=%s" % path)
    return 1 if bad else 0
