"""C02 - cross-reference resolution: newest definition wins, in every physical form.

A1. TLC enumerates document histories x physical forms x object-stream packings x /Index layouts x caching flag
    x getobj call orders on specs/xref/XRef.tla (NewestWins, CacheCoherent, ObjIdsExact); every terminal state
    is realised as a PDF file (harness/realise/pdfwriter.py) and replayed on PDFDocument.
A2. TLC enumerates file tails x chunk sizes on specs/xref/RevLines.tla (backward line reader = forward
    reference); every terminal state is replayed on PDFDocument.find_xref with that BUFSIZ.
A3. single-revision classic files with a damaged startxref / cross-reference table: the fallback scan finds
    every object and the text is unchanged.
B.  lookups recorded on the repository samples and on generated 40-revision documents are validated by TLC
    against specs/xref/XRefTrace.tla.
"""
import glob
import io
import json
import logging
import os
import random

logging.disable(logging.CRITICAL)

from ..core import unjson  # noqa: E402
from ..deviations import active, tla_set  # noqa: E402
from ..tlc import MachineryError, SPECS, require_coverage, run_tlc, write_cfg  # noqa: E402
from ..realise.pdfwriter import Name, Ref, Revision, Stream, build, type1_font  # noqa: E402

from pdfminer.high_level import extract_text  # noqa: E402
from pdfminer.pdfdocument import PDFDocument, PDFNoValidXRef, PDFObjectNotFound, PDFXRefStream  # noqa: E402
from pdfminer.pdfparser import PDFParser  # noqa: E402
from pdfminer.psparser import PSBaseParser  # noqa: E402
from pdfminer.pdftypes import PDFStream  # noqa: E402

SPEC = os.path.join(SPECS, "xref", "MC_XRef.tla")
REV_SPEC = os.path.join(SPECS, "xref", "MC_RevLines.tla")
TRACE_SPEC = os.path.join(SPECS, "xref", "XRefTrace.tla")
EOLS = [b"\n", b"\r\n", b"\r"]


def _special_w(w, variant):
    """/W with a zero-width field whose default applies: type (default 1) or generation (default 0)"""
    return (0,) + tuple(w[1:]) if variant == 1 else (w[0], w[1], 0)


def newest_def(hist, p):
    return max(k for k, r in enumerate(hist, 1) if p in r["defs"])


def null_overrides(hist):
    """payload numbers whose newest definition (in a revision after the first) overrides an older one: in realisation
    variant 1 that newest definition is written as `null` - still the newest, so getobj must return None, not the old value"""
    out = set()
    for k, r in enumerate(hist, 1):
        for p in r["defs"]:
            if k > 1 and k == newest_def(hist, p) and any(p in q["defs"] for q in hist[:k - 1]):
                out.add(p)
    return out


def realise(hist, eol=b"\n", xref_w=(1, 4, 2), zero_type_width=False, nulls=True, empty_tail=None):
    """zero_type_width: cross-reference streams that list only type-1 entries (a later revision, no object stream,
    one /Index range per run so that no free filler entry is needed) are written with /W [0 n m] - the type field has
    width 0 and every entry defaults to type 1 (ISO 32000-1 table 17)."""
    revs = []
    for k, r in enumerate(hist, 1):
        objs = {}
        if k == 1:
            objs[1] = {"Type": Name("Catalog"), "Pages": Ref(2), "Rev": k}
            objs[2] = {"Type": Name("Pages"), "Kids": [], "Count": 0}
        elif r["newroot"]:
            objs[1] = {"Type": Name("Catalog"), "Pages": Ref(2), "Rev": k}
        for p in r["defs"]:
            objs[p + 2] = {"Obj": p, "Ver": k}
            if nulls and zero_type_width == 1 and p in null_overrides(hist) and k == newest_def(hist, p):
                objs[p + 2] = None        # variant 1: the newest definition of an object that an older revision defined is `null`
        revs.append(Revision(dict(sorted(objs.items())), form=r["form"], objstm=sorted(p + 2 for p in r["packed"]),
                             split_index=r["split"], objstm_id=r["stmid"] or None, xref_id=r["xid"] or None,
                             root=Ref(1) if k == 1 else None, info={"Rev": k} if (k == 1 or r["newroot"]) else None,
                             eol=eol,
                             omit_index=bool(zero_type_width),
                             # the same variant number also selects how the classic-table trailer is laid out:
                             # `trailer` EOL dict | `trailer <<...>>` on one line | `trailer <<` EOL entries EOL `>>`
                             trailer_style=int(zero_type_width),
                             # ... and how cross-reference and object streams are packed, and whether the objects a
                             # later revision redefines carry generation 1 (a reused free entry)
                             hybrid_free=(int(zero_type_width) == 1),
                             index_desc=(int(zero_type_width) == 2),
                             # variant 2: the newest trailer omits /Info when the revision brings none of its own - the
                             # document then has no Info (the trailer is the newest one's, not a merge of all trailers)
                             drop_info=(int(zero_type_width) == 2 and k == len(hist) and k > 1),
                             xref_pack=["flate", "pngmix" if len(hist) % 2 else "png", "none"][int(zero_type_width)],
                             objstm_pack=["flate", "none", "hex"][int(zero_type_width)],
                             gens={p + 2: 1 for p in r["defs"] if p not in r["packed"]} if (zero_type_width == 1 and k > 1) else None,
                             xref_w=_special_w(xref_w, zero_type_width) if (zero_type_width and k > 1 and r["form"] == "stream"
                                                                             and not r["packed"] and r["split"]) else xref_w))
    if empty_tail:
        # one more incremental update that defines nothing (it only repeats the trailer): a classic section `xref 0 0`, or a
        # cross-reference stream that lists nothing, not even itself (`/Index []`, no entry data)
        revs.append(Revision({}, form=empty_tail, eol=eol, omit_self=True, split_index=True, xref_w=xref_w,
                             xref_pack=["flate", "png", "none"][int(zero_type_width)], trailer_style=int(zero_type_width)))
    return build(revs)[0]


def open_doc(data, caching, bufsiz=None):
    old = PSBaseParser.BUFSIZ
    if bufsiz:
        PSBaseParser.BUFSIZ = bufsiz
    try:
        return PDFDocument(PDFParser(io.BytesIO(data)), caching=caching)
    finally:
        PSBaseParser.BUFSIZ = old


def fetch(doc, objid):
    try:
        o = doc.getobj(objid)
    except PDFObjectNotFound:
        return (0, 0)
    if isinstance(o, dict) and "Obj" in o and "Ver" in o:
        return (o["Obj"], o["Ver"])
    return ("?", repr(o)[:80])


def direction_a1(ck, dev):
    tiers = {"quick": [dict(NPay=2, MaxRev=2, MaxCalls=2)], "thorough": [dict(NPay=2, MaxRev=3, MaxCalls=2), dict(NPay=3, MaxRev=2, MaxCalls=3)]}
    variant = 0
    for c in tiers[ck.tier]:
        cfg = write_cfg(os.path.join(ck.tmp, "c02_xref_%d_%d.cfg" % (c["NPay"], c["MaxRev"])),
                        constants=dict(c, Forms="<- AllForms", Dev=tla_set(dev) if dev else "<- NoDev"),
                        invariants=["NewestWins", "CacheCoherent"] + ([] if dev else ["ObjIdsExact"]),
                        constraints=["EmitTerminal"])
        emit = os.path.join(ck.tmp, "c02_xref.ndjson")
        res = run_tlc(SPEC, cfg, emit=emit, coverage=(ck.tier == "quick"), timeout=7200)
        ck.add_tlc(res, "XRef NPay=%(NPay)d MaxRev=%(MaxRev)d MaxCalls=%(MaxCalls)d" % c)
        if not res.ok:
            raise MachineryError("XRef.tla violates %s on the intended design:\n%s" % (res.violated, res.error_text[:3000]))
        if res.actions:
            require_coverage(res, ["AReadXRefs", "AGetObj"])
        cache = {}
        n = 0
        # every behaviour is checked by TLC; when a configuration has more than 300,000 of them only a deterministic
        # eighth is realised and replayed on the code (stated in evidence)
        stride = 8 if res.emitted > 300000 else 1
        skipped = 0
        for line in open(emit):
            n += 1
            if stride > 1 and (n * 2654435761) % 2 ** 32 % stride:
                skipped += 1
                continue
            r = json.loads(line)
            variant += 1
            eol = EOLS[variant % 3]
            w = [(1, 4, 2), (1, 2, 2), (2, 3, 2)][(variant // 3) % 3]
            zw = (variant // 9) % 3          # 0: plain; 1: /W [0 n m] + default /Index; 2: /W [t n 0] + default /Index
            hk = (json.dumps(r["hist"], sort_keys=True), eol, w, zw)
            data = cache.get(hk)
            if data is None:
                if len(cache) > 4000:
                    cache.clear()
                data = cache[hk] = realise(r["hist"], eol, w, zw)
            bufsiz = [None, 7, 64][variant % 3]
            replay = {"hist": r["hist"], "caching": r["caching"], "calls": r["calls"], "eol": eol, "w": list(w), "bufsiz": bufsiz, "zero_type_width": zw}
            try:
                doc = open_doc(data, r["caching"], bufsiz)
            except Exception as e:
                ck.violation("open:" + type(e).__name__, "a conforming %d-revision file could not be opened: %s" % (len(r["hist"]), e), replay)
                continue
            nulls = null_overrides(r["hist"]) if zw == 1 else set()
            calls = [(p, ("?", "None") if p in nulls else tuple(want)) for (p, want) in r["calls"]]
            for (p, want) in calls:
                got = fetch(doc, p + 2)
                if got != tuple(want):
                    forms = "+".join(x["form"] + ("/objstm" if x["packed"] else "") for x in r["hist"])
                    ck.violation("newest-wins:" + forms.split("+")[-1].split("/")[0] + (":cached" if r["caching"] else ""),
                                 "getobj(%d) returned %r, the newest revision defining it gives %r (forms %s, caching=%s)"
                                 % (p + 2, got, tuple(want), forms, r["caching"]), replay)
            # the other caching mode must agree (same calls)
            if variant % 4 == 0 or ck.tier == "thorough":
                doc2 = open_doc(data, not r["caching"], None)
                for (p, want) in calls:
                    if fetch(doc2, p + 2) != tuple(want):
                        ck.violation("caching-dependent", "getobj(%d) differs with caching=%s" % (p + 2, not r["caching"]), replay)
            if len(doc.xrefs) != len(r["secs"]):
                ck.violation("sections", "cross-reference chain has %d sections, expected %d" % (len(doc.xrefs), len(r["secs"])), replay)
            else:
                for i, (x, m) in enumerate(zip(doc.xrefs, r["secs"])):
                    try:
                        ids = sorted(x.get_objids())
                    except Exception as e:
                        ids = "exception:" + type(e).__name__
                    if ids == sorted(m["inuse"]):
                        continue
                    if ids == sorted(m["ids"]) and "ObjIdsRangeIndex" in dev:
                        ck.violation("dev:ObjIdsRangeIndex", "get_objids() = %r, in use %r" % (ids, sorted(m["inuse"])), replay)
                    else:
                        ck.violation("objids:" + m["kind"], "section %d (%s) reports in-use numbers %r, it defines %r"
                                     % (i, m["kind"], ids, sorted(m["inuse"])), replay)
            # the same history followed by an update that defines nothing: one more section that reports no object
            # number, everything else as before (every fifth behaviour; alternately as classic section and as stream)
            if variant % 5 == 0 or ck.tier == "thorough":
                tail = "stream" if (variant // 5) % 2 == 0 or ck.tier == "thorough" and variant % 2 else "table"
                data3 = realise(r["hist"], eol, w, zw, empty_tail=tail)
                try:
                    doc3 = open_doc(data3, r["caching"], bufsiz)
                    got3 = [fetch(doc3, p + 2) for (p, _) in calls]
                    ids3 = [sorted(x.get_objids()) for x in doc3.xrefs]
                    root3 = doc3.catalog.get("Rev")
                except Exception as e:
                    got3, ids3, root3 = "exception:%s: %s" % (type(e).__name__, e), None, None
                want3 = [tuple(want) for (_, want) in calls]
                wids3 = [[]] + [sorted(m["inuse"]) for m in r["secs"]]
                if got3 != want3 or ids3 != wids3 or root3 != r["root"]:
                    ck.violation("empty-update:" + tail,
                                 "after an update that defines nothing (%s): getobj %r (want %r), in-use numbers per section %r "
                                 "(want %r), catalog of revision %r (want %r)" % (tail, got3, want3, ids3, wids3, root3, r["root"]),
                                 dict(replay, empty_tail=tail))
            root = doc.catalog.get("Rev")
            info = doc.info[0].get("Rev") if doc.info else None
            last = r["hist"][-1]
            want_info = None if (zw == 2 and len(r["hist"]) > 1 and not last["newroot"]) else r["root"]
            if root != r["root"] or info != want_info:
                ck.violation("newest-trailer", "catalog from revision %r, info from %r, newest is %r" % (root, info, r["root"]), replay)
            nontriv = len(r["hist"]) > 1 or any(x["packed"] for x in r["hist"])
            ck.case(1, ("x", hk[0], r["caching"], json.dumps(r["calls"])) if nontriv else None)
            if n % 6000 == 1:
                ck.sample({"history": r["hist"], "caching": r["caching"], "getobj_calls": r["calls"], "file_bytes": len(data)})
        os.remove(emit)
        if n != res.emitted or n == 0:
            raise MachineryError("emitted %d, replayed %d" % (res.emitted, n))
        ck.replayed += n - skipped
        if skipped:
            ck.extra["behaviours_checked_by_TLC_but_not_replayed"] = ck.extra.get("behaviours_checked_by_TLC_but_not_replayed", 0) + skipped


def direction_a2(ck):
    maxlen = 4 if ck.tier == "quick" else 6
    bufs = "{1, 2, 3, 5, 9, 10, 64}" if ck.tier == "quick" else "{1, 2, 3, 4, 5, 8, 9, 10, 11, 64}"
    cfg = write_cfg(os.path.join(ck.tmp, "c02_rev.cfg"), constants={"Syms": "<- AllSyms", "MaxLen": maxlen, "BufSizes": bufs},
                    invariants=["SameAsReference"], properties=["Terminates"], constraints=["EmitTerminal"])
    emit = os.path.join(ck.tmp, "c02_rev.ndjson")
    res = run_tlc(REV_SPEC, cfg, emit=emit, coverage=(ck.tier == "quick"), timeout=7200)
    ck.add_tlc(res, "RevLines MaxLen=%d" % maxlen)
    if not res.ok:
        raise MachineryError("RevLines.tla violates %s:\n%s" % (res.violated, res.error_text[:3000]))
    if res.actions:
        require_coverage(res, ["AReadChunk", "ASplit", "AEnd"])
    n = 0
    cls = {}
    for line in open(emit):
        r = json.loads(line)
        n += 1
        data = bytes(r["d"])
        B = r["b"]
        c = cls.get(B)
        if c is None:
            c = cls[B] = type("RP%d" % B, (PDFParser,), {"BUFSIZ": B})
        try:
            got = ("found", PDFDocument.find_xref(None, c(io.BytesIO(data))))
        except PDFNoValidXRef:
            got = ("novalid", None)
        except Exception as e:
            got = ("exception:" + type(e).__name__, None)
        want = ("found", int(bytes(r["p"]))) if r["r"] == "found" else ("novalid", None)
        if got != want:
            ck.violation("find-xref:" + got[0], "find_xref on %r with BUFSIZ=%d gives %r, the file defines %r" % (data, B, got, want),
                         {"data": data, "bufsiz": B, "kind": "revlines"})
        ck.case(1, ("r", data) if r["r"] == "found" else None)
        if n % 40000 == 1:
            ck.sample({"file_tail": data, "bufsiz": B, "find_xref": got})
    os.remove(emit)
    if n != res.emitted or n == 0:
        raise MachineryError("emitted %d, replayed %d" % (res.emitted, n))
    ck.replayed += n


def text_doc(nobj, eol, seed):
    rng = random.Random(seed)
    objs = {1: {"Type": Name("Catalog"), "Pages": Ref(2)}, 2: {"Type": Name("Pages"), "Kids": [Ref(3)], "Count": 1},
            3: {"Type": Name("Page"), "Parent": Ref(2), "MediaBox": [0, 0, 300, 300], "Resources": {"Font": {"F1": Ref(5)}}, "Contents": Ref(4)},
            # the payload's last line matters and, in two of three documents, `endstream` follows it without an end-of-line
            # ... and a literal string spanning lines, one of which looks like an object header to a line-by-line scan
            4: Stream({}, b"BT /F1 12 Tf 20 200 Td (damaged %d) Tj\n0 -14 Td (line two\n1 0 obj\ntrailing) Tj ET" % seed,
                      eol_before_end=[b"\n", b"", b" "][seed % 3]), 5: type1_font()}
    for i in range(nobj):
        objs[6 + i] = {"Obj": i, "Ver": 1, "Pad": "x" * rng.randrange(0, 40)}
    return objs, build([Revision(objs, form="table", root=Ref(1), eol=eol, trailer_style=(seed // 3) % 3)])


def direction_a3(ck):
    n = 12 if ck.tier == "quick" else 80
    for i in range(n):
        eol = EOLS[i % 3]
        objs, (data, info) = text_doc(3 + i % 5, eol, ck.seed * 1000 + i)
        good = extract_text(io.BytesIO(data))
        xp = info["xref_pos"][0]
        damaged = {
            "startxref-offset": data.replace(b"startxref" + eol + b"%d" % xp, b"startxref" + eol + b"%d" % (xp + 7 + i)),
            "startxref-beyond-eof": data.replace(b"startxref" + eol + b"%d" % xp, b"startxref" + eol + b"%d" % (len(data) + 100000)),
            "startxref-garbage": data.replace(b"startxref" + eol + b"%d" % xp, b"startxref" + eol + b"x%d" % xp),
            "xref-keyword": data[:xp] + b"xrfe" + data[xp + 4:],
            "xref-subsection": data[:xp] + data[xp:].replace(b"0 %d" % (max(objs) + 1), b"0 zz", 1),
            # damage at entry level: the header announces one entry too many (the `trailer` line is read as an entry),
            # an entry has lost a field
            "xref-count": data[:xp] + data[xp:].replace(b"0 %d" % (max(objs) + 1), b"0 %d" % (max(objs) + 2), 1),
            "xref-entry": data[:xp] + data[xp:].replace(b" 00000 n", b" n", 1),
        }
        for kind, d in damaged.items():
            if d == data:
                raise MachineryError("damage %s did not change the file" % kind)
            rp = {"data": d, "kind": "fallback", "damage": kind}
            try:
                doc = open_doc(d, True)
                for objid, v in objs.items():
                    o = doc.getobj(objid)
                    if isinstance(v, dict) and "Obj" in v and (not isinstance(o, dict) or o.get("Obj") != v["Obj"]):
                        ck.violation("fallback:" + kind, "object %d not found intact by the fallback scan: %r" % (objid, o), rp)
                    # "scanning the body still finds EVERY object": the catalog, the page tree, the font and the content
                    # stream too (extraction alone would not tell: it has a second fallback that searches for /Type /Page)
                    elif isinstance(v, dict) and (not isinstance(o, dict) or set(o) != set(v)):
                        ck.violation("fallback-object:" + kind, "object %d read back by the fallback scan as %r, written with keys %r"
                                     % (objid, o, sorted(v)), rp)
                    # (the scan ignores /Length and takes the payload up to `endstream`: the end-of-line before the keyword
                    #  belongs to it then - the property asks for the object to be found, not for byte-exact payloads)
                    elif isinstance(v, Stream) and (not isinstance(o, PDFStream) or o.get_data().rstrip(b"\r\n ") != v.data.rstrip(b"\r\n ")):
                        ck.violation("fallback-object:" + kind, "stream %d read back by the fallback scan as %r" % (objid, o), rp)
                t = extract_text(io.BytesIO(d))
                if t != good:
                    ck.violation("fallback-text:" + kind, "text differs after damage: %r vs %r" % (t, good), rp)
            except Exception as e:
                ck.violation("fallback:" + kind + ":" + type(e).__name__, "damaged single-revision file not recovered: %s" % e, rp)
            ck.case(1, ("f", i, kind))
            ck.replayed += 1


# ------------------------------------------------------------------------------------------------ direction B
def digest(o):
    """stable digest of a looked-up value (independent of lazy stream decoding and of object identity)"""
    import zlib
    from pdfminer.pdftypes import PDFStream
    if isinstance(o, PDFStream):
        c = "s:" + ",".join(sorted(map(str, o.attrs))) + ":" + str(o.attrs.get("Length"))[:12]
    elif isinstance(o, dict):
        c = "d:" + ",".join(sorted(map(str, o)))
    elif isinstance(o, list):
        c = "l:%d" % len(o)
    else:
        c = "v:" + repr(o)[:100]
    return zlib.crc32(c.encode()) % 1000003


def record_lookups(data, caching, order_seed, label, maxobj=400, hist=None):
    """-> trace record {sections: [[ids...]], events: [{objid, tried, cachehit, digest}]}"""
    doc = open_doc(data, caching)
    size = 0
    for x in doc.xrefs:
        try:
            size = max(size, int(x.get_trailer().get("Size", 0)))
        except Exception:
            pass
    size = min(max(size, 2), 5000)
    sections = []
    for x in doc.xrefs:
        ids = []
        for objid in range(0, size + 1):
            try:
                x.get_pos(objid)
                ids.append(objid)
            except KeyError:
                pass
            except Exception:   # noqa: BLE001 - a section that answers with anything but KeyError does not list the object
                pass            # either; what that does to the lookups shows in the recorded events and their validation
        sections.append(ids)
    pre = [[k, digest(v[0])] for k, v in doc._cached_objs.items()]
    # wrap get_pos per section
    log = []
    cur = []

    def wrap(i, x):
        orig = x.get_pos

        def gp(objid):
            r = orig(objid)
            if cur:
                cur[-1]["tried"].append(i + 1)
            return r
        x.get_pos = gp
    for i, x in enumerate(doc.xrefs):
        wrap(i, x)
    orig_getobj = doc.getobj

    def getobj(objid):
        ev = {"objid": objid, "tried": [], "cachehit": objid in doc._cached_objs, "digest": 0, "found": True, "depth": len(cur),
              "pv": [0, 0]}
        cur.append(ev)
        try:
            o = orig_getobj(objid)
            ev["digest"] = digest(o)
            if isinstance(o, dict) and isinstance(o.get("Obj"), int) and isinstance(o.get("Ver"), int):
                ev["pv"] = [o["Obj"], o["Ver"]]
            return o
        except PDFObjectNotFound:
            ev["found"] = False
            raise
        finally:
            cur.pop()
            log.append(ev)
    doc.getobj = getobj
    rng = random.Random(order_seed)
    ids = sorted({i for s in sections for i in s if i > 0})
    rng.shuffle(ids)
    ids = ids[:maxobj]
    ids += ids[: len(ids) // 3]
    for objid in ids:
        try:
            doc.getobj(objid)
        except Exception:
            pass
    return {"label": label, "caching": caching, "sections": sections, "events": log, "precached": pre,
            "defs": [list(r["defs"]) for r in hist] if hist else []}


def many_revision_doc(seed, nrev=40):
    rng = random.Random(seed)
    hist = []
    top = 12
    for k in range(1, nrev + 1):
        defs = sorted(rng.sample(range(1, 11), rng.randrange(1, 6)))
        form = rng.choice(["table", "stream", "hybrid"]) if k > 1 else rng.choice(["table", "stream"])
        packed = sorted(rng.sample(defs, rng.randrange(1, len(defs) + 1))) if form != "table" and (form == "hybrid" or rng.random() < 0.6) else []
        stmid = 0
        xid = 0
        if packed:
            top += 1
            stmid = top
        if form != "table":
            top += 1
            xid = top
        hist.append({"defs": defs, "form": form, "packed": packed, "split": form == "stream" and rng.random() < 0.5,
                     "newroot": rng.random() < 0.2, "stmid": stmid, "xid": xid})
    return hist


def direction_b(ck):
    rng = random.Random(ck.seed + 5)
    recs = []
    files = sorted(glob.glob("/repo/samples/**/*.pdf", recursive=True))
    pick = files if ck.tier == "thorough" else rng.sample(files, 10)
    for fn in pick:
        if "encryption" in fn:
            continue
        try:
            data = open(fn, "rb").read()
            recs.append(record_lookups(data, rng.random() < 0.5, rng.randrange(1 << 30), os.path.relpath(fn, "/repo"), 150))
        except Exception as e:
            ck.note("sample %s not recorded: %s" % (fn, type(e).__name__))
    for i in range(3 if ck.tier == "quick" else 25):
        hist = many_revision_doc(ck.seed * 100 + i)
        data = realise(hist, EOLS[i % 3], zero_type_width=i % 3, nulls=False)   # (the trace spec identifies values by their version)
        recs.append(record_lookups(data, i % 2 == 0, i, "generated 40-revision document #%d" % i, hist=hist))
    recs = [r for r in recs if r["events"]]
    tf = os.path.join(ck.tmp, "c02_traces.json")
    cfg = write_cfg(os.path.join(ck.tmp, "c02_trace.cfg"), spec="Spec", deadlock=True)
    from ..core import batches
    rejected = 0
    queue = batches(recs, lambda r: len(r["events"]) + 2)
    while queue:
        todo = queue.pop(0)
        json.dump(todo, open(tf, "w"))
        res = run_tlc(TRACE_SPEC, cfg, workers=1, env={"TRACE_FILE": tf}, timeout=3600)
        ck.add_tlc(res, "trace validation of %d recorded lookup traces" % len(todo))
        if res.ok:
            ck.traces += len(todo)
            continue
        if res.violated != "deadlock" or not res.error_trace:
            raise MachineryError("trace validation failed unexpectedly: " + res.error_text[:2000])
        st = res.error_trace[-1][1]
        t, e = int(st["t"]), int(st["e"])
        tr = todo[t - 1]
        ev = tr["events"][e - 1] if e - 1 < len(tr["events"]) else None
        rejected += 1
        ck.traces += t - 1
        ck.violation("lookup-trace-rejected", "%s: lookup #%d %r is not answered as the specification requires (first section listing the "
                     "object / same value as the earlier miss)" % (tr["label"], e, ev), {"kind": "trace", "label": tr["label"], "event": ev})
        if todo[t:]:
            queue.insert(0, todo[t:])
        if rejected >= 3:
            break
    ck.extra["lookup_events_validated"] = sum(len(r["events"]) for r in recs)
    for r in recs[:2]:
        ck.sample({"trace": r["label"], "sections": len(r["sections"]), "lookups": len(r["events"]), "first_events": r["events"][:3]})
    for r in recs:
        ck.case(len(r["events"]), ("b", r["label"]))


def run(ck):
    dev = [d for d in active("xref")]
    ck.extra["deviations_modelled_as_coded"] = dev
    ck.rule = ("A1: every history (<= MaxRev revisions over NPay payload objects, each table/stream/hybrid, every object-stream "
               "packing, single- or multi-range /Index, optional new catalog) x caching flag x every getobj call sequence of "
               "length MaxCalls enumerated by TLC, realised with rotating EOL styles (LF/CRLF/CR), /W widths and BUFSIZ; "
               "non-trivial = more than one revision or an object stream. A2: every file tail of <= MaxLen symbols x chunk size. "
               "A3: damaged single-revision files. B: recorded lookups on samples and 40-revision documents.")
    ck.assumptions = ["deleting objects (free entries overriding a definition) is outside the stated property and not generated",
                      "object values are small dictionaries carrying (object, revision)"]
    direction_a1(ck, dev)
    direction_a2(ck)
    direction_a3(ck)
    direction_b(ck)
    ck.exhaustive = True


def replay(path):
    doc = json.load(open(path))
    c = unjson(doc["case"])
    if c.get("kind") == "revlines":
        cl = type("RP", (PDFParser,), {"BUFSIZ": c["bufsiz"]})
        try:
            print("find_xref ->", PDFDocument.find_xref(None, cl(io.BytesIO(c["data"]))))
        except Exception as e:
            print("find_xref raised", type(e).__name__)
    elif "hist" in c:
        data = realise(c["hist"], c["eol"], tuple(c["w"]), c.get("zero_type_width", False), empty_tail=c.get("empty_tail"))
        d = open_doc(data, c["caching"], c["bufsiz"])
        for (p, want) in c["calls"]:
            print("getobj(%d) -> %r   expected %r" % (p + 2, fetch(d, p + 2), tuple(want)))
        for x in d.xrefs:
            print(" section", type(x).__name__, sorted(x.get_objids()))
    print("VIOLATION property=C02 replay=%s" % path)
    return 1
