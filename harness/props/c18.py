"""C18 - images: exported files and inline image data reproduce the samples exactly.

A. specs/image/ImageExport.tla (decision tree, unique naming, BMP writer as seek/write steps on a modelled file, a BMP
   reader written from the format description) and specs/image/InlineScan.tla (BI dictionary, ID, get_inline_data with
   buffer refills and content-array boundaries, trailing-EOL strip, ASCII85 special case, resumption) are checked
   exhaustively by TLC.  Every terminal state is replayed: image XObjects are written into documents and exported by
   extract_text_to_fp(output_dir=...), the files are read by a strict BMP reader and compared with the samples (JPEG
   byte for byte); inline-image contents go through the real PDFContentParser at the modelled BUFSIZ / stream division
   and, as documents, through the interpreter (LTImage data and attributes, the glyph shown after the image).
B. export events of the real ImageWriter over the repository's samples are validated against specs/image/ImageTrace.tla.
"""
import glob
import io
import json
import os
import random
import shutil
import tempfile

from ..core import unjson
from ..deviations import active, tla_set
from ..tlc import MachineryError, SPECS, require_coverage, run_tlc, write_cfg
from ..realise import image_real as R

EXPORT_SPEC = os.path.join(SPECS, "image", "MC_ImageExport.tla")
INLINE_SPEC = os.path.join(SPECS, "image", "MC_InlineScan.tla")
TRACE_SPEC = os.path.join(SPECS, "image", "ImageTrace.tla")
LIB = os.path.join(SPECS, "image")
IMG_DEVS = ["UnfilteredIndexError", "RowsRGB", "ShortLastRow", "ColorSpaceUnresolved", "GeometryUnresolved"]
SPELLING_DEVS = ("FilterEntryUnresolved", "ColorSpaceUnresolved", "GeometryUnresolved")
INL_DEVS = ["NoRestart", "DollarNewline", "CRLFUnit", "EOFNotDelim", "SeekOtherStream"]
EXPORT_ACTIONS = ["ADecide", "AName", "ANameRetry", "ACreate", "AHeader", "AInfo", "APalEntry", "ASeekLine", "AWriteLine",
                  "AWriteBlob", "AClose"]
INLINE_ACTIONS = ["ADictTok", "AID", "AMRefill", "AMFind", "AMChar", "AMFinish", "AMEof", "AResume"]
REALISABLE = {"Flate", "LZW", "A85", "AHx", "RL", "DCT"} | set(R.PREDICTOR_FILTERS) | set(R.LZW_EARLY)


def devsets(dev):
    """{} (intended), all listed deviations (as coded), and each one alone (to attribute a difference)"""
    sets = [[]] + ([sorted(dev)] if dev else []) + ([[d] for d in sorted(dev)] if len(dev) > 1 else [])
    return "{" + ", ".join("{" + ", ".join('"%s"' % d for d in ds) + "}" for ds in sets) + "}"


def dkey(d):
    return ",".join(sorted(d))


# ================================================================================================ export
EXPORT_CONFIGS = {
    "quick": [("bmp-writer", "Geo5", "KindsBmp", '{<<>>, <<"Flate">>}', "OneImage", "EmptyDir"),
              ("decision", "Geo2x1", "KindsAll", "ChainsUpTo2", "OneImage", "EmptyDir"),
              ("naming", "Geo1", "KindBw", "ChainsNaming", "NamesUpTo3", "Dirs"),
              # images whose streams exercise what small ones cannot: a table-full LZW clear, RunLength runs / literals above 128
              ("large", "GeoLargeQuick", "KindRgb", '{<<"LZW">>, <<"RL">>}', "OneImage", "EmptyDir"),
              # every filter that takes DecodeParms x every predictor class (none is above; TIFF 2, PNG 10-15), in each position
              ("predictors", "GeoPredQuick", "KindsLarge", "PredChainsQuick", "OneImage", "EmptyDir"),
              # every realisable export route inside an encrypted document (RC4, AESV2): the files must be the plain document's
              ("encrypted", "GeoEnc", "KindsAll", "EncChains", "OneImage", "EmptyDir"),
              # LZW with /EarlyChange 0, 1 and absent on an image with more than 254 codes behind the clear code
              ("lzw-early", "GeoLZW", "KindGray", "LZWChains", "OneImage", "EmptyDir"),
              # how the stream dictionary spells /Filter, /DecodeParms, /ColorSpace, /Width /Height /BitsPerComponent, for every route
              ("dict-spellings", "GeoEnc", "KindsAll", "RouteChains", "OneImage", "EmptyDir")],
}
EXPORT_CONFIGS["thorough"] = EXPORT_CONFIGS["quick"] + [
    ("bmp-writer-chains", "Geo3", "KindsBmp", '{<<"LZW">>, <<"A85", "Flate">>, <<"AHx">>, <<"RL">>, <<"Flate", "LZW">>, <<"FlatePNG">>}', "OneImage", "EmptyDir"),
    ("large-chains", "GeoLarge", "KindsLarge", '{<<"LZW">>, <<"RL">>, <<"FlatePNG">>, <<"Flate">>, <<"A85", "LZW">>, <<"LZW", "FlatePNG">>}', "OneImage", "EmptyDir")]
EXPORT_CONFIGS["thorough"] = [c for c in EXPORT_CONFIGS["thorough"] if c[0] not in ("large", "predictors", "lzw-early")] + [
    ("lzw-early", "GeoLZW", "KindsLarge", "LZWChains", "OneImage", "EmptyDir"),
    ("predictors", "GeoPred", "KindsLarge", "PredChains", "OneImage", "EmptyDir"),
    ("large-predictors", "GeoLargeQuick", "KindsLarge", '{<<"LZWPNG">>, <<"LZWTIFF">>, <<"FlateTIFF">>, <<"A85", "LZWPNG">>}', "OneImage", "EmptyDir")]


def classify_bmp(blob, want_rows, w, h, bits):
    """the property's predicate on one exported BMP file.  -> [] if a strict reader returns the samples, else the list of
    reasons: 'ShortLastRow' (pixel array incomplete, fine once padded), 'RowsRGB' (fine once R and B are exchanged),
    or a free-text reason."""
    why = []
    data = blob
    try:
        got = R.read_bmp(data)
    except R.BmpError as e:
        # incomplete pixel array?  pad to the size the header announces and look again
        import struct
        size = struct.unpack_from("<I", blob, 2)[0] if len(blob) >= 6 else 0
        if 0 < size - len(blob) < 4:
            try:
                got = R.read_bmp(blob + b"\0" * (size - len(blob)))
                why.append("ShortLastRow")
            except R.BmpError as e2:
                return ["unreadable: %s" % e2]
        else:
            return ["unreadable: %s" % e]
    gw, gh, gbits, rows = got
    if (gw, gh, gbits) != (w, h, bits):
        return why + ["geometry %dx%d/%d, expected %dx%d/%d" % (gw, gh, gbits, w, h, bits)]
    if rows != want_rows:
        if [[(b, g, r) for (r, g, b) in row] for row in rows] == want_rows:
            why.append("RowsRGB")
        else:
            why.append("pixels differ")
    return why


def replay_export(ck, recs, dev, outroot, label, n):
    ideal = recs[""]
    coded = recs.get(dkey(dev), ideal)
    imgs = ideal["imgs"]
    fs0 = sorted(ideal["fs0"])
    rp = {"imgs": imgs, "preexisting": fs0, "origin": label}
    outdir = tempfile.mkdtemp(dir=outroot)
    for fn in fs0:
        with open(os.path.join(outdir, fn), "wb") as f:
            f.write(b"already here")
    env = ideal.get("env", "plain")
    rp["env"] = env
    pdf = R.export_doc(imgs, variant=n, encrypt=None if env == "plain" else env)
    err, files, _ = R.run_export(pdf, outdir)
    # realiser self-check (independent path): the images arrive in the hierarchy with the intended samples
    check_arrival(pdf, imgs)
    if env != "plain":
        # an encrypted document exports what the plain one does, for every route (also those outside the pixel predicates)
        plain_dir = tempfile.mkdtemp(dir=outroot)
        err0, files0, _ = R.run_export(R.export_doc(imgs, variant=n), plain_dir)
        shutil.rmtree(plain_dir, ignore_errors=True)
        if (err, files) != (err0, files0):
            diff = sorted(k for k in set(files) | set(files0) if files.get(k) != files0.get(k))
            ck.violation("encrypted:%s" % (",".join(x.rsplit(".", 1)[-1] for x in diff) or "error"),
                         "exported from a document encrypted with %s: %s %r differ from what the plain document exports (%s)"
                         % (env, err or "", diff, err0 or "no error"), dict(rp))
    names = sorted(files)
    what = "%s %s %dx%d %s" % (imgs[0]["pk"], "+".join(imgs[0]["filters"]) or "unfiltered", imgs[0]["w"], imgs[0]["h"],
                               "/".join(i["name"] for i in imgs))
    # ---- binding: the as-coded model accounts for what happened
    model_err = coded["pc"] == "error"
    if err and err.startswith("ImportError") and coded["pc"] != "error" and coded.get("dec") in ("bytes", "jp2"):
        model_err = True          # the route the model takes needs Pillow, which is not installed here: same route, no file
    model_files = {nm: bytes(f) for nm, f in zip(coded["names"], coded["files"])}
    same_as_coded = (bool(err) == model_err) and (err is not None or files == model_files)
    # ---- the property, evaluated on the real result
    bad = []          # (key, text)
    if err:
        bad.append(("exception:" + err, "export raised %s" % err))
    else:
        if len(files) != len(imgs):
            bad.append(("names:collision", "%d images but %d new files %r" % (len(imgs), len(files), names)))
        for fn in fs0:
            with open(os.path.join(outdir, fn), "rb") as f:
                if f.read() != b"already here":
                    bad.append(("names:overwrite", "pre-existing file %s was overwritten" % fn))
        by_base = {}
        for im, nm in zip(imgs, coded["names"] if same_as_coded else []):
            by_base[nm] = im
        for nm, blob in files.items():
            im = by_base.get(nm) or next((i for i in imgs if nm.startswith(i["name"] + ".")), imgs[0])
            if not in_domain(im):
                continue
            data = R.image_data(im["pk"], im["w"], im["h"])
            if im["filters"] and im["filters"][-1] == "DCT":
                if not nm.endswith(".jpg") or blob != data:
                    bad.append(("jpeg:not-byte-for-byte", "JPEG data of %s not passed through byte for byte into %s" % (what, nm)))
                continue
            if not nm.endswith(".bmp"):
                bad.append(("format:" + nm.rsplit(".", 1)[-1], "%s exported as %s, not as a bitmap" % (what, nm)))
                continue
            why = classify_bmp(blob, R.pdf_pixels(im["pk"], im["w"], im["h"], data), im["w"], im["h"], {"bw": 1, "gray": 8, "rgb": 24}[im["pk"]])
            for wy in why:
                bad.append(("bmp:" + wy.split(":")[0], "%s does not read back as the samples of %s: %s" % (nm, what, wy)))
    shutil.rmtree(outdir, ignore_errors=True)
    nontrivial = any(in_domain(i) for i in imgs)
    ck.case(1, (json.dumps(imgs, sort_keys=True), tuple(fs0)) if nontrivial else None)
    if not bad:
        if not same_as_coded:
            ck.extra["export_drift"] = ck.extra.get("export_drift", 0) + 1
            if ck.extra["export_drift"] <= 3:
                ck.note("drift: export of %s satisfies the property but differs from the as-coded model (names %r vs %r)"
                        % (what, names, sorted(model_files)))
        return
    if same_as_coded and dev:
        # attribute to the deviations that change this case in the model
        blame = [d for d in dev if sig(recs.get(d, ideal)) != sig(ideal)] or sorted(dev)
        for d in blame:
            ck.violation("dev:" + d, "export of %s: %s" % (what, "; ".join(t for _, t in bad)[:300]), rp)
        return
    for key, text in bad:
        ck.violation(key, text, dict(rp, observed_names=names, error=err))


def sig(rec):
    return json.dumps([rec["pc"], rec["names"], rec["files"]])


def in_domain(im):
    return im["pk"] in ("bw", "gray", "rgb") and all(f in ("Flate", "LZW", "A85", "AHx", "RL") or f in R.PREDICTOR_FILTERS or f in R.LZW_EARLY or (f == "DCT" and q == len(im["filters"]) - 1)
                                                    for q, f in enumerate(im["filters"]))


def realisable(rec):
    for im in rec["imgs"]:
        if any(f not in REALISABLE for f in im["filters"]):
            return False
        if "DCT" in im["filters"][:-1]:
            return False
        if im["pk"] == "cmyk" and (im["filters"][-1:] == ["DCT"] or im["filters"] == ["Flate"]):
            return False            # these writers need Pillow (not installed here); outside the property's images anyway
    return True


def check_arrival(pdf, imgs):
    from pdfminer.high_level import extract_pages
    from pdfminer.layout import LTFigure, LTImage
    got = []
    for page in extract_pages(io.BytesIO(pdf)):
        for fig in page:
            if isinstance(fig, LTFigure):
                for it in fig:
                    if isinstance(it, LTImage):
                        got.append(it)
    if len(got) != len(imgs):
        raise MachineryError("realiser self-check: %d images arrive, %d intended" % (len(got), len(imgs)))
    for it, im in zip(got, imgs):
        from pdfminer.pdftypes import resolve1
        if tuple(resolve1(v) for v in it.srcsize) != (im["w"], im["h"]) or it.name != im["name"]:
            raise MachineryError("realiser self-check: image %r arrives as %r %r" % (im, it.name, it.srcsize))
        # (whether the samples survive the filter chain is part of the property: judged on the exported file, not here)


def direction_a_export(ck, dev):
    outroot = tempfile.mkdtemp(dir=ck.tmp)
    total = 0
    effect = {}
    for (label, geo, kinds, chains, names, dirs) in EXPORT_CONFIGS[ck.tier]:
        envs = "Encrypted" if label.startswith("encrypted") else "PlainOnly"
        spellings = ("SpellingsQuick" if ck.tier == "quick" else "SpellingsFull") if label == "dict-spellings" else "OnlyPlainSpelling"
        # the deviations about spellings change nothing where everything is spelled plainly: not explored there
        cdev = list(dev) if label == "dict-spellings" else [d for d in dev if d not in SPELLING_DEVS]
        mod = "RunE_" + label.replace("-", "_")
        wrapper = os.path.join(ck.tmp, mod + ".tla")
        with open(wrapper, "w") as f:
            f.write("---- MODULE %s ----\nEXTENDS MC_ImageExport\nTheChains == %s\nTheDevs == %s\n====\n" % (mod, chains, devsets(cdev)))
        cfg = write_cfg(os.path.join(ck.tmp, mod + ".cfg"),
                        constants={"Geometries": "<- " + geo, "PixKinds": "<- " + kinds, "Chains": "<- TheChains", "NameSets": "<- " + names,
                                   "PreExisting": "<- " + dirs, "DevChoices": "<- TheDevs", "Envs": "<- " + envs, "Spellings": "<- " + spellings},
                        invariants=["DecisionTotal", "DecisionRight", "BMPReadsBack", "JPEGByteForByte", "DistinctNames", "SeekInArray"],
                        constraints=["EmitTerminal"])
        emit = os.path.join(ck.tmp, mod + ".ndjson")
        cov = label in ("bmp-writer", "naming") and ck.tier == "quick"
        res = run_tlc(wrapper, cfg, emit=emit, coverage=cov, timeout=3600, lib=LIB)
        ck.add_tlc(res, "ImageExport %s" % label)
        if not res.ok:
            raise MachineryError("ImageExport.tla violates %s on the intended design (%s):\n%s" % (res.violated, label, res.error_text[:3000]))
        if cov:
            need = [a for a in EXPORT_ACTIONS if not (label == "naming" and a in ("APalEntry",)) and not (label == "bmp-writer" and a in ("ANameRetry", "AWriteBlob"))]
            require_coverage(res, need)
        groups = {}
        n = 0
        for line in open(emit):
            rec = json.loads(line)
            n += 1
            groups.setdefault(json.dumps([rec["imgs"], sorted(rec["fs0"]), rec["env"]], sort_keys=True), {})[dkey(rec["dev"])] = rec
        os.remove(emit)
        if n != res.emitted or n == 0:
            raise MachineryError("emitted %d terminal states but read %d" % (res.emitted, n))
        skipped = 0
        for gi, (key, recs) in enumerate(groups.items()):
            if "" not in recs:
                raise MachineryError("no intended-design record for %s" % key[:200])
            for d in cdev:
                if sig(recs.get(d if len(cdev) > 1 else dkey(cdev), recs[""])) != sig(recs[""]):
                    effect[d] = effect.get(d, 0) + 1
            if not realisable(recs[""]):
                skipped += 1
                continue
            replay_export(ck, recs, cdev, outroot, label, gi)
            ck.replayed += 1
            if gi % 211 == 0:
                r = recs[""]
                ck.sample({"images": r["imgs"], "preexisting": sorted(r["fs0"]), "model_names": r["names"],
                           "model_file_bytes": [len(f) for f in r["files"]]})
        total += len(groups)
        ck.extra.setdefault("export_cases_model_only", {})[label] = skipped
        ck.extra.setdefault("export_cases_replayed", {})[label] = len(groups) - skipped
    ck.extra["export_cases"] = total
    ck.extra["export_cases_changed_by_deviation"] = effect
    for d in dev:
        if not effect.get(d):
            raise MachineryError("vacuous: deviation %s changes no enumerated export in the specification" % d)
    shutil.rmtree(outroot, ignore_errors=True)


def export_teeth(ck):
    found = {}
    for d, inv, chains in (("UnfilteredIndexError", "P_DecisionTotal", "{<<>>}"), ("RowsRGB", "P_BMPReadsBack", '{<<"Flate">>}'),
                           ("ShortLastRow", "P_BMPReadsBack", '{<<"Flate">>}'), ("JpegRawdata", "P_JPEGByteForByte", '{<<"DCT">>}'),
                           ("FilterEntryUnresolved", "P_DecisionRight", '{<<"DCT">>}'), ("ColorSpaceUnresolved", "P_DecisionRight", '{<<"Flate">>}'),
                           ("GeometryUnresolved", "P_DecisionTotal", '{<<"Flate">>}')):
        mod = "TeethE_%s" % d
        wrapper = os.path.join(ck.tmp, mod + ".tla")
        with open(wrapper, "w") as f:
            f.write('---- MODULE %s ----\nEXTENDS MC_ImageExport\nTheChains == %s\nTheDevs == {{"%s"}}\n====\n' % (mod, chains, d))
        cfg = write_cfg(os.path.join(ck.tmp, mod + ".cfg"),
                        constants={"Geometries": "<- Geo3", "PixKinds": "<- KindsBmp", "Chains": "<- TheChains", "NameSets": "<- OneImage",
                                   "PreExisting": "<- EmptyDir", "DevChoices": "<- TheDevs",
                                   "Envs": "<- Encrypted" if d == "JpegRawdata" else "<- PlainOnly",
                                   "Spellings": "<- SpellingsQuick" if d in SPELLING_DEVS else "<- OnlyPlainSpelling"}, invariants=[inv])
        res = run_tlc(wrapper, cfg, workers=2, timeout=600, lib=LIB)
        ck.add_tlc(res, "counterexample search: %s alone against %s" % (d, inv))
        if res.ok or res.violated != inv:
            raise MachineryError("vacuous: deviation %s does not violate %s in ImageExport.tla" % (d, inv))
        found[d] = len(res.error_trace)
    ck.extra["export_deviation_counterexample_lengths"] = found


# ================================================================================================ inline images
INLINE_CONFIGS = {
    # (label, Alphabet, MaxLen, BufSizes, DictKinds, Styles, Followers, Cuts, FastDict, Leads)
    "quick": [("matcher", "Alpha6", 3, "{1, 2, 3, 7}", "KindsPlain", "StylesBoth", "FollTwo", "CutsNone", "TRUE", "NoLead"),
              ("dict-and-cuts", "AlphaSmall", 1, "{1, 3}", "KindsAll", "StylesBoth", "FollAll", "CutsAll", "FALSE", "NoLead"),
              # the inline image in the 2nd / 3rd stream of a /Contents array, text after it
              ("later-streams", "AlphaSmall", 1, "{1, 3, 4096}", "KindsTwo", "StylesBoth", "FollAll", "CutsFew", "TRUE", "LeadsAll"),
              # every spelling of the ASCII85 filter x ASCII85 text holding EI + white space / EI at a line break
              ("a85-text", "AlphaA85Text", 3, "{2, 4096}", "KindsA85", "StylesEol", "FollTwo", "CutsNone", "FALSE", "NoLead"),
              # the white-space byte after ID {SP, LF, CR, TAB} x the first data bytes {LF, CR, SP, other} (CR + LF is delimiter + data)
              ("id-delims", "AlphaFirst", 2, "{1, 3, 4096}", "KindsPlain", "StylesBoth", "FollTwo", "CutsNone", "FALSE", "NoLead")],
    "thorough": [("matcher", "Alpha6", 5, "{1, 2, 3, 7}", "KindsPlain", "StylesBoth", "FollTwo", "CutsNone", "TRUE", "NoLead"),
                 ("dict-and-cuts", "Alpha6", 2, "{1, 2, 3, 5}", "KindsAll", "StylesBoth", "FollAll", "CutsAll", "FALSE", "NoLead"),
                 ("later-streams", "Alpha6", 2, "{1, 3, 4096}", "KindsTwo", "StylesBoth", "FollAll", "CutsAll", "TRUE", "LeadsAll"),
                 ("a85-text", "AlphaA85Text", 4, "{1, 2, 7, 4096}", "KindsA85", "StylesEol", "FollAll", "CutsNone", "FALSE", "NoLead"),
                 ("id-delims", "Alpha6", 3, "{1, 2, 3, 4096}", "KindsTwo", "StylesBoth", "FollTwo", "CutsFew", "FALSE", "NoLead")],
}
SPACES = b"\t\n\x0b\x0c\r "


def py_scan(S, B, dev, target=b"EI", start=0, cutpos=0):
    """Python transcription of the matcher of InlineScan.tla over the bytes S (from the seek point): -> (phase, img).
    Used only to attribute a difference to single deviations; validated against TLC's own records first."""
    acc = bytearray()
    mi = 0
    p = e = start
    n = len(S)
    while mi <= len(target):
        if p >= e:
            if e >= n:
                if mi == len(target) and "EOFNotDelim" not in dev:
                    body = bytes(acc[:len(acc) - len(target)])
                    return "done", py_strip(body, dev) + (b"~>" if target == b"~>" else b"")
                return "eof", b""
            p = e
            end = cutpos if (cutpos and e < cutpos) else n
            e = min(e + B, end)
            continue
        if mi == 0:
            j = S.find(target[:1], p, e)
            if j >= 0:
                acc += S[p:j + 1]
                p = j + 1
                mi = 1
            else:
                acc += S[p:e]
                p = e
        else:
            c = S[p]
            acc.append(c)
            p += 1
            if (mi >= len(target) and c in SPACES) or (mi < len(target) and c == target[mi]):
                mi += 1
            elif "NoRestart" not in dev and c == target[0]:
                mi = 1
            else:
                mi = 0
    body = bytes(acc[:len(acc) - (len(target) + 1)])
    return "done", py_strip(body, dev) + (b"~>" if target == b"~>" else b"")


def py_strip(d, dev):
    n = len(d)

    def end_at(q):
        return q == n or ("DollarNewline" in dev and q == n - 1 and d[n - 1] == 10)
    out = bytearray()
    q = 0
    while q < n:
        if "CRLFUnit" in dev and q + 1 < n and d[q] == 13 and d[q + 1] == 10 and end_at(q + 2):
            q += 2
        elif d[q] in (10, 13) and end_at(q + 1):
            q += 1
        else:
            out.append(d[q])
            q += 1
    return bytes(out)


def model_view(rec):
    """(phase, img bytes, rest as [(kind, bytes)])"""
    return rec["phase"], bytes(rec["img"]), [(t["k"], bytes(t["v"])) for t in rec["rest"]]


def real_view(err, out):
    if err:
        return "error:" + err, b"", []
    k = next((q for q, it in enumerate(out) if it[0] == "img"), None)
    if k is None:
        # nothing but the operators of preceding streams: the image and what follows it never arrived
        return "eof", b"", []
    rest = [(it[0], it[1]) for it in out[k + 1:]]
    return "done", out[k][1], rest


def seek_point(rec, dev):
    """absolute offset where get_inline_data starts reading (transcription of SeekTarget)"""
    content = bytes(rec["content"])
    idpos = content.index(b" ID") + 1
    lenpre = idpos + 2
    cp = rec["cutpos"]
    if "SeekOtherStream" in dev:
        base_end = cp if (cp and lenpre >= cp) else 0
        base_start = cp if (cp and idpos >= cp) else 0
        return min(base_end + (idpos - base_start) + 3, len(content))
    return idpos + 3


def py_model(rec, dev):
    content = bytes(rec["content"])
    return py_scan(content, rec["B"], dev, b"~>" if rec["a85"] else b"EI", start=seek_point(rec, dev), cutpos=rec["cutpos"])


def expected_capture(rec):
    data = bytes(rec["data"])
    if rec["a85"]:
        return data.rstrip(b"\r\n") + b"~>"
    return data


def norm_capture(rec, img):
    if rec["a85"] and img.endswith(b"~>"):
        return img[:-2].rstrip(b"\r\n") + b"~>"
    return img


def replay_inline(ck, recs, dev, label):
    ideal = recs[""]
    coded = recs.get(dkey(dev), ideal)
    content = bytes(ideal["content"])
    B, cp, lead = ideal["B"], ideal["cutpos"], list(ideal["lead"])
    rp = {"content": content, "bufsiz": B, "cutpos": cp, "lead": lead, "data": bytes(ideal["data"]), "origin": label}
    err, out = R.scan_content(R.lead_streams(lead) + R.split_content(content, cp), B)
    real = real_view(err, out)
    what = "inline image data %r written as %r (BUFSIZ=%d%s%s)" % (bytes(ideal["data"]), content[content.index(b" ID") + 3:], B,
                                                                      ", next stream from offset %d" % cp if cp else "",
                                                                      ", after streams of %s bytes" % lead if lead else "")
    # validate the transcription used for blame against TLC (both designs)
    for dv, r in ((set(), ideal), (set(dev), coded)):
        ph, img = py_model(r, dv)
        if (ph, img) != (r["phase"], bytes(r["img"])):
            raise MachineryError("matcher transcription disagrees with TLC on %r dev=%s: %r vs %r" % (content, sorted(dv), (ph, img), (r["phase"], bytes(r["img"]))))
    indom = ideal["indomain"]
    ck.case(1, (content, B, cp, tuple(lead)) if indom and (len(ideal["data"]) > 0 or lead) else None)
    if indom:
        eff = ck.extra.setdefault("inline_cases_changed_by_deviation", {})
        for d in dev:
            if py_model(ideal, {d}) != py_model(ideal, set()):
                eff[d] = eff.get(d, 0) + 1
    # the property on the real result (only inside its quantifier: data without the end marker)
    ok = True
    if indom:
        want_rest = model_view(ideal)[2]
        ok = real[0] == "done" and norm_capture(ideal, real[1]) == expected_capture(ideal) and real[2] == want_rest
    if real == model_view(coded):
        if not ok:
            blame = [d for d in dev if py_model(ideal, {d}) != py_model(ideal, set())]
            for d in (blame or sorted(dev)):
                ck.violation("dev:" + d, "%s: captured %r, followers %r" % (what, real[1], real[2][:4]), rp)
        return
    if not ok:
        first = ("lost" if real[0] != "done" else "data" if norm_capture(ideal, real[1]) != expected_capture(ideal) else "followers")
        ck.violation("inline:" + first, "%s: %s - captured %r, followers %r; expected %r then %r"
                     % (what, real[0], real[1], real[2][:4], expected_capture(ideal), model_view(ideal)[2][:4]), rp)
        return
    if real != model_view(ideal):
        ck.extra["inline_drift"] = ck.extra.get("inline_drift", 0) + 1
        if ck.extra["inline_drift"] <= 3:
            ck.note("drift: %s gives %r, the as-coded model %r" % (what, real, model_view(coded)))


def direction_a_inline(ck, dev):
    doc_cases = []
    for (label, alpha, maxlen, bufs, kinds, styles, foll, cuts, fast, leads) in INLINE_CONFIGS[ck.tier]:
        mod = "RunI_" + label.replace("-", "_")
        wrapper = os.path.join(ck.tmp, mod + ".tla")
        with open(wrapper, "w") as f:
            f.write("---- MODULE %s ----\nEXTENDS MC_InlineScan\nTheDevs == {{}%s}\nAlphaSmall == {69, 10, 13}\nKindsTwo == {\"none\", \"A85\"}\n"
                    "CutsFew == {\"none\", \"afterIDws\", \"afterEIws\"}\nStylesEol == {\"eol\"}\n====\n"
                    % (mod, (", " + tla_set(dev)) if dev else ""))
        cfg = write_cfg(os.path.join(ck.tmp, mod + ".cfg"),
                        constants={"Alphabet": "<- " + alpha, "MaxLen": maxlen, "BufSizes": bufs, "DictKinds": "<- " + kinds,
                                   "Styles": "<- " + styles, "Followers": "<- " + foll, "Cuts": "<- " + cuts, "DevChoices": "<- TheDevs",
                                   "FastDict": fast, "Leads": "<- " + leads, "IDDelims": "<- IDDelimsAll" if label == "id-delims" else "<- OnlySP"},
                        invariants=["DataCapturedExactly", "FollowersUnaffected", "MatcherIsFirstMarker", "BufferInOneStream",
                                    "IndexInRange", "AccIsContiguous", "DictWellFormed"], constraints=["EmitTerminal"])
        emit = os.path.join(ck.tmp, mod + ".ndjson")
        cov = label == "dict-and-cuts" and ck.tier == "quick"
        res = run_tlc(wrapper, cfg, emit=emit, coverage=cov, timeout=7200, lib=LIB)
        ck.add_tlc(res, "InlineScan %s: data <= %d over %s, BUFSIZ %s" % (label, maxlen, alpha, bufs))
        if not res.ok:
            raise MachineryError("InlineScan.tla violates %s on the intended design (%s):\n%s" % (res.violated, label, res.error_text[:3000]))
        if cov:
            require_coverage(res, INLINE_ACTIONS)
        groups = {}
        n = 0
        for line in open(emit):
            rec = json.loads(line)
            n += 1
            groups.setdefault((bytes(rec["content"]), rec["B"], rec["cutpos"], tuple(rec["lead"])), {})[dkey(rec["dev"])] = rec
        os.remove(emit)
        if n != res.emitted or n == 0:
            raise MachineryError("emitted %d terminal states but read %d" % (res.emitted, n))
        for gi, (key, recs) in enumerate(groups.items()):
            if "" not in recs:
                raise MachineryError("no intended-design record for %r" % (key,))
            replay_inline(ck, recs, dev, label)
            ck.replayed += 1
            if recs[""]["indomain"] and (recs[""]["B"] in (1, 3) or recs[""]["lead"]):
                doc_cases.append(recs)
            ck.extra.setdefault("inline_cases_replayed", {})[label] = gi + 1
            if gi % 4999 == 0:
                r = recs[""]
                ck.sample({"content": bytes(r["content"]), "bufsiz": r["B"], "cut": r["cutpos"], "model_image_data": bytes(r["img"]),
                           "model_followers": [(t["k"], bytes(t["v"])) for t in r["rest"]]})
    for d in dev:
        if not ck.extra.get("inline_cases_changed_by_deviation", {}).get(d):
            raise MachineryError("vacuous: deviation %s changes no enumerated in-domain inline image in the specification" % d)
    inline_documents(ck, dev, doc_cases)


def inline_documents(ck, dev, doc_cases):
    """the same contents as pages of documents through the interpreter: LTImage data / attributes and the glyph after"""
    rng = random.Random(ck.seed)
    limit = 400 if ck.tier == "quick" else 4000
    if len(doc_cases) > limit:
        # half of the sample from the cases with preceding streams
        later = [r for r in doc_cases if r[""]["lead"]]
        first = [r for r in doc_cases if not r[""]["lead"]]
        later = rng.sample(later, min(len(later), limit // 2))
        doc_cases = later + rng.sample(first, min(len(first), limit - len(later)))
    byB = {}
    for recs in doc_cases:
        byB.setdefault(recs[""]["B"], []).append(recs)
    ndoc = 0
    for B, lst in sorted(byB.items()):
        for i in range(0, len(lst), 60):
            chunk = lst[i:i + 60]
            pdf = R.inline_doc([(bytes(r[""]["content"]), r[""]["cutpos"], r[""]["lead"]) for r in chunk])
            pages = R.inline_pages(pdf, B)
            ndoc += 1
            if len(pages) != len(chunk):
                raise MachineryError("inline document has %d pages, %d intended" % (len(pages), len(chunk)))
            for recs, (imgs, text) in zip(chunk, pages):
                ideal = recs[""]
                coded = recs.get(dkey(dev), ideal)
                ck.case(1, ("doc", bytes(ideal["content"]), B, ideal["cutpos"], tuple(ideal["lead"])))
                want = expected_capture(ideal)
                good = (len(imgs) == 1 and norm_capture(ideal, imgs[0][0]) == want and imgs[0][1] == (1, 1) and imgs[0][2] == 8
                        and "Z" in text)
                if good:
                    continue
                rp = {"content": bytes(ideal["content"]), "bufsiz": B, "cutpos": ideal["cutpos"], "lead": list(ideal["lead"]), "level": "document"}
                as_coded_lost = coded["phase"] != "done" or norm_capture(coded, bytes(coded["img"])) != want
                if as_coded_lost and dev:
                    blame = [d for d in dev if py_model(ideal, {d}) != py_model(ideal, set())]
                    for d in (blame or sorted(dev)):
                        ck.violation("dev:" + d, "page with inline image %r: images %r, glyphs %r" % (bytes(ideal["data"]), [x[0] for x in imgs], text), rp)
                else:
                    ck.violation("inline:document", "page with inline image %r (BUFSIZ=%d): LTImage items %r, glyphs shown %r; expected data %r "
                                 "and the glyph Z" % (bytes(ideal["data"]), B, imgs, text, want), rp)
    ck.extra["inline_documents"] = ndoc


def inline_teeth(ck):
    found = {}
    for d, cuts in (("NoRestart", "CutsNone"), ("DollarNewline", "CutsNone"), ("CRLFUnit", "CutsNone"), ("EOFNotDelim", "CutsNone"),
                    ("SeekOtherStream", "CutsAll"), ("CumulativeBufpos", "CutsNone"), ("BareNameNoFilter", "CutsNone"), ("IDSkipsCRLF", "CutsNone")):
        mod = "TeethI_%s" % d
        wrapper = os.path.join(ck.tmp, mod + ".tla")
        with open(wrapper, "w") as f:
            f.write('---- MODULE %s ----\nEXTENDS MC_InlineScan\nTheDevs == {{"%s"}}\n====\n' % (mod, d))
        cfg = write_cfg(os.path.join(ck.tmp, mod + ".cfg"),
                        constants={"Alphabet": "<- AlphaA85Text" if d == "BareNameNoFilter" else "<- Alpha6", "MaxLen": 3 if d == "BareNameNoFilter" else 2,
                                   "BufSizes": "{2}", "DictKinds": "<- KindsA85" if d == "BareNameNoFilter" else "<- KindsPlain", "Styles": "<- StylesBoth",
                                   "Followers": "<- FollTwo", "Cuts": "<- " + cuts, "DevChoices": "<- TheDevs", "FastDict": "TRUE",
                                   "Leads": "<- LeadsAll" if d == "CumulativeBufpos" else "<- NoLead", "IDDelims": "<- IDDelimsAll" if d == "IDSkipsCRLF" else "<- OnlySP"},
                        invariants=["P_DataCapturedExactly"])
        res = run_tlc(wrapper, cfg, workers=2, timeout=600, lib=LIB)
        ck.add_tlc(res, "counterexample search: %s alone against P_DataCapturedExactly" % d)
        if res.ok or res.violated != "P_DataCapturedExactly":
            raise MachineryError("vacuous: deviation %s does not violate DataCapturedExactly in InlineScan.tla" % d)
        st = res.error_trace[0][1] if res.error_trace else {}
        found[d] = st.get("data", "?")
    ck.extra["inline_deviation_counterexamples"] = found


# ================================================================================================ B: export events over samples
SHORT = {"FlateDecode": "Flate", "Fl": "Flate", "LZWDecode": "LZW", "LZW": "LZW", "ASCII85Decode": "A85", "A85": "A85",
         "ASCIIHexDecode": "AHx", "AHx": "AHx", "RunLengthDecode": "RL", "RL": "RL", "DCTDecode": "DCT", "DCT": "DCT",
         "JPXDecode": "JPX", "JBIG2Decode": "JBIG2", "CCITTFaxDecode": "CCITT", "CCF": "CCITT"}


class ExportRecorder:
    """observation wrappers around ImageWriter.export_image / the _save_* methods / BMPWriter (installed at run time)"""

    def __init__(self):
        self.events = []

    def __enter__(self):
        from pdfminer import image as M
        from pdfminer.pdfcolor import LITERAL_DEVICE_GRAY, LITERAL_DEVICE_RGB, LITERAL_INLINE_DEVICE_GRAY, LITERAL_INLINE_DEVICE_RGB, LITERAL_DEVICE_CMYK
        from pdfminer.psparser import literal_name
        self.M = M
        rec = self
        self.saved = {}
        for nm in ("export_image", "_save_jpeg", "_save_jpeg2000", "_save_jbig2", "_save_bmp", "_save_bytes", "_save_raw"):
            if not hasattr(M.ImageWriter, nm):
                raise MachineryError("wrapper target ImageWriter.%s missing" % nm)
            self.saved[nm] = getattr(M.ImageWriter, nm)
        self.bmp_init, self.bmp_line = M.BMPWriter.__init__, M.BMPWriter.write_line
        self.cur = None

        def export_image(iw, image):
            cs = image.colorspace
            csn = ("RGB" if (LITERAL_DEVICE_RGB in cs or LITERAL_INLINE_DEVICE_RGB in cs) else
                   "G" if (LITERAL_DEVICE_GRAY in cs or LITERAL_INLINE_DEVICE_GRAY in cs) else
                   "CMYK" if LITERAL_DEVICE_CMYK in cs else "other")
            try:
                flt = [SHORT.get(literal_name(f), "other") for f, _ in image.stream.get_filters()]
            except Exception:  # noqa: BLE001
                flt = ["other"]
            ev = {"name": image.name, "filters": flt, "bits": int(image.bits or 0), "cs": csn, "w": int(image.srcsize[0] or 0),
                  "h": int(image.srcsize[1] or 0), "dec": "", "fname": "", "bw": 0, "bh": 0, "bbits": 0, "linesize": 0, "datasize": 0,
                  "pos0": 0, "lines": [], "flen": 0, "datalen": 0, "plaincs": len(cs) == 1, "outdir": iw.outdir, "image": image}
            rec.cur = ev
            try:
                name = rec.saved["export_image"](iw, image)
                ev["fname"] = name
                try:
                    ev["datalen"] = len(image.stream.get_data())
                except Exception:  # noqa: BLE001
                    pass
                try:
                    ev["flen"] = os.path.getsize(os.path.join(iw.outdir, name))
                except OSError:
                    pass
                return name
            except IndexError:
                ev["dec"] = "IndexError"
                raise
            except Exception as e:  # noqa: BLE001
                ev["dec"] = ev["dec"] or ("error:" + type(e).__name__)
                ev["failed"] = type(e).__name__
                raise
            finally:
                rec.events.append(ev)
                rec.cur = None
        M.ImageWriter.export_image = export_image

        def wrap_save(nm, dec):
            orig = self.saved[nm]

            def f(iw, image, *a, **kw):
                if rec.cur is not None:
                    rec.cur["dec"] = dec
                return orig(iw, image, *a, **kw)
            setattr(M.ImageWriter, nm, f)
        for nm, dec in (("_save_jpeg", "jpeg"), ("_save_jpeg2000", "jp2"), ("_save_jbig2", "jbig2"), ("_save_bmp", "bmp"),
                        ("_save_bytes", "bytes"), ("_save_raw", "raw")):
            wrap_save(nm, dec)

        class FpProxy:
            """records the seeks and writes BMPWriter makes on the open file"""

            def __init__(self, fp):
                self._fp = fp
                self.seeks = []
                self.written = 0

            def seek(self, *a):
                self.seeks.append(a[0])
                return self._fp.seek(*a)

            def write(self, b):
                self.written += len(b)
                return self._fp.write(b)

            def __getattr__(self, nm):
                return getattr(self._fp, nm)

        def bmp_init(bw, fp, bits, width, height):
            rec.bmp_init(bw, FpProxy(fp), bits, width, height)
            if rec.cur is not None:
                rec.cur.update(bw=width, bh=height, bbits=bits, linesize=bw.linesize, datasize=bw.datasize, pos0=bw.pos0)

        def bmp_line(bw, y, data):
            px = bw.fp
            n0, w0 = len(px.seeks), px.written
            rec.bmp_line(bw, y, data)
            if rec.cur is not None:
                # where the row went (the one seek made) and how many bytes were written there
                rec.cur["lines"].append([y, px.seeks[-1] if len(px.seeks) == n0 + 1 else -1, px.written - w0])
        M.BMPWriter.__init__ = bmp_init
        M.BMPWriter.write_line = bmp_line
        return self

    def __exit__(self, *a):
        for nm, f in self.saved.items():
            setattr(self.M.ImageWriter, nm, f)
        self.M.BMPWriter.__init__, self.M.BMPWriter.write_line = self.bmp_init, self.bmp_line


def pk_of(ev):
    return "bw" if ev["bits"] == 1 else "rgb" if (ev["bits"] == 8 and ev["cs"] == "RGB") else "gray" if (ev["bits"] == 8 and ev["cs"] == "G") else "other"


def direction_b(ck, dev):
    from pdfminer.high_level import extract_text_to_fp
    files = sorted(glob.glob("/repo/samples/**/*.pdf", recursive=True))
    files = [f for f in files if "encryption" not in f]
    if ck.tier == "quick":
        files = [f for f in files if os.path.getsize(f) < 1_500_000]
    traces = []
    outroot = tempfile.mkdtemp(dir=ck.tmp)
    nimg = 0
    for fn in files:
        origin = os.path.relpath(fn, "/repo")
        outdir = tempfile.mkdtemp(dir=outroot)
        # a file already in the directory, named like the first export would be: the exporter must step aside
        pre = []
        failed = None
        with ExportRecorder() as rec:
            try:
                with open(fn, "rb") as f:
                    extract_text_to_fp(f, io.StringIO(), output_dir=outdir, maxpages=(3 if ck.tier == "quick" else 0))
            except Exception as e:  # noqa: BLE001
                failed = type(e).__name__
        evs = rec.events
        if not evs:
            shutil.rmtree(outdir, ignore_errors=True)
            continue
        # events after a failing export never happen (the exception ends the run); an ImportError (Pillow missing) or a
        # JBIG2 problem is not C18's subject: the trace ends before it
        good = []
        for ev in evs:
            if ev.get("failed") and ev["dec"] != "IndexError":
                break
            good.append(ev)
        for ev in good:
            nimg += 1
            image = ev.pop("image")
            ev.pop("outdir")
            ev.pop("failed", None)
            rp = {"origin": origin, "image": ev["name"], "filters": ev["filters"], "bits": ev["bits"], "cs": ev["cs"], "w": ev["w"], "h": ev["h"]}
            pk = pk_of(ev)
            dom = pk != "other" and ev.pop("plaincs") and all(f in ("Flate", "LZW", "A85", "AHx", "RL", "CCITT") or (f == "DCT" and q == len(ev["filters"]) - 1)
                                        for q, f in enumerate(ev["filters"])) and not image.imagemask is True
            ck.case(1, ("B", origin, ev["name"], ev["fname"]) if dom else None)
            if ev["dec"] == "IndexError":
                if "UnfilteredIndexError" in dev:
                    ck.violation("dev:UnfilteredIndexError", "exporting the unfiltered image %s of %s raised IndexError" % (ev["name"], origin), rp)
                else:
                    ck.violation("exception:IndexError@image.py:export_image", "exporting image %s of %s raised IndexError" % (ev["name"], origin), rp)
                continue
            if not dom or not ev["fname"]:
                continue
            blob = open(os.path.join(outdir, ev["fname"]), "rb").read()
            try:
                data = image.stream.get_data()
            except Exception:  # noqa: BLE001
                continue
            if ev["filters"][-1:] == ["DCT"]:
                if blob != data:
                    ck.violation("jpeg:not-byte-for-byte", "JPEG image %s of %s is not exported byte for byte" % (ev["name"], origin), rp)
                continue
            if ev["dec"] != "bmp" or len(data) < R.bytes_per_line(pk, ev["w"]) * ev["h"]:
                continue
            why = classify_bmp(blob, R.pdf_pixels(pk, ev["w"], ev["h"], data), ev["w"], ev["h"], {"bw": 1, "gray": 8, "rgb": 24}[pk])
            for wy in why:
                if wy in dev:
                    ck.violation("dev:" + wy, "%s exported from %s does not read back as the stored samples (%s)" % (ev["fname"], origin, wy), rp)
                else:
                    ck.violation("bmp:" + wy.split(":")[0], "%s exported from %s does not read back as the stored samples: %s"
                                 % (ev["fname"], origin, wy), rp)
        for ev in evs:
            ev.pop("image", None), ev.pop("outdir", None), ev.pop("failed", None), ev.pop("plaincs", None)
        if good:
            traces.append({"origin": origin, "dir": pre, "ev": good})
        shutil.rmtree(outdir, ignore_errors=True)
    shutil.rmtree(outroot, ignore_errors=True)
    if not traces:
        raise MachineryError("no export events recorded over the samples")
    rejected = validate_traces(ck, traces, dev)
    ck.traces += len(traces) - rejected
    ck.extra["export_events_recorded"] = nimg
    # a corrupted recording must be rejected (vacuity guard for the trace specification)
    bad = json.loads(json.dumps(next((t for t in traces if any(e["dec"] == "bmp" and e["lines"] for e in t["ev"])), None)))
    if bad:
        e = next(e for e in bad["ev"] if e["dec"] == "bmp" and e["lines"])
        e["lines"][-1][1] += 1
        if validate_traces(ck, [bad], dev, quiet=True) != 1:
            raise MachineryError("vacuous trace validation: a corrupted export recording was accepted")
        bad2 = json.loads(json.dumps(traces[0]))
        bad2["ev"][0]["fname"] = "x" + bad2["ev"][0]["fname"]
        if bad2["ev"][0]["dec"] != "IndexError" and validate_traces(ck, [bad2], dev, quiet=True) != 1:
            raise MachineryError("vacuous trace validation: a recording with an altered file name was accepted")
        ck.extra["corrupted_trace_rejected"] = True


def validate_traces(ck, traces, dev, quiet=False):
    tf = os.path.join(ck.tmp, "c18_traces.json")
    cfg = write_cfg(os.path.join(ck.tmp, "c18_trace.cfg"), constants={"Dev": tla_set(dev) if dev else "{}"}, spec="Spec",
                    invariants=["NamesDistinct"], deadlock=True)
    todo = list(traces)
    rejected = 0
    while todo:
        with open(tf, "w") as f:
            json.dump(todo, f)
        res = run_tlc(TRACE_SPEC, cfg, workers=1, env={"TRACE_FILE": tf}, timeout=1800)
        if not quiet:
            ck.add_tlc(res, "trace validation of %d recorded export runs" % len(todo))
        if res.ok:
            break
        if res.violated not in ("deadlock", "NamesDistinct") or not res.error_trace:
            raise MachineryError("trace validation failed unexpectedly: " + res.error_text[:2000])
        st = res.error_trace[-1][1]
        t, k = int(st["t"]), int(st["k"])
        tr = todo[t - 1]
        rejected += 1
        if quiet:
            return rejected
        ev = tr["ev"][k - 1] if k - 1 < len(tr["ev"]) else None
        ck.violation("trace-rejected:" + str(res.violated),
                     "export run over %s is not a behaviour of the exporter specification at event %d: %r" % (tr["origin"], k, ev),
                     {"origin": tr["origin"], "event_index": k, "event": ev})
        todo = todo[t:]
        if rejected >= 3 and todo:
            ck.note("%d recorded traces left unexamined after 3 rejections" % len(todo))
            rejected += len(todo)
            break
    return rejected


# ================================================================================================ PNG-predicted images, row by row
PRED_SPEC = os.path.join(SPECS, "image", "MC_PredictedImage.tla")


PREDICTED_CONFIGS = {
    # label, Shapes, RowTypes, Palette
    "quick": [("row-types", "ShapesQuick", "AllRowTypes", "Arithmetic"), ("paeth-ties", "ShapesTies", "PaethOnly", "PaletteTies")],
    "thorough": [("row-types", "ShapesFull", "AllRowTypes", "Arithmetic"), ("paeth-ties", "ShapesTies", "TieRowTypes", "PaletteTiesFull")],
}
PREDICTED_TEETH = [("NoneKeepsAbove", "DevNone", "ShapesQuick", "AllRowTypes", "Arithmetic"),
                   ("PaethTieByValue", "DevTie", "ShapesTies", "PaethOnly", "PaletteTies")]


def predicted_samples(rec):
    """Sample of PredictedImage.tla: the arithmetic pattern, or palette values assigned to the pixels"""
    pk, w, h = rec["kind"], rec["w"], rec["h"]
    _, _, ncomp = R.PIX[pk]
    n = R.bytes_per_line(pk, w) * h
    pal, pix = rec["pal"], rec["pix"]
    if not pal:
        return bytes((3 * q + 1) % 256 for q in range(n))
    return bytes(pal[(pix[q // ncomp] - 1 + q % ncomp) % len(pal)] for q in range(n))


def paeth_tie_classes(data, ncomp, w, h):
    """which kinds of tie between the three Paeth distances the pixels of an 8-bit image produce (rows from the second on)"""
    rl = ncomp * w
    found = set()
    for y in range(1, h):
        for x in range(ncomp, rl):
            a, b, c = data[y * rl + x - ncomp], data[(y - 1) * rl + x], data[(y - 1) * rl + x - ncomp]
            p = a + b - c
            pa, pb, pc = abs(p - a), abs(p - b), abs(p - c)
            if pb == pc < pa and b != c:
                found.add("pb=pc:above>upper-left" if b > c else "pb=pc:above<upper-left")
            if pa == pc < pb and a != c:
                found.add("pa=pc:left>upper-left" if a > c else "pa=pc:left<upper-left")
            if pa == pb <= pc and a != b:
                found.add("pa=pb:left#above")
            if pa == pb == pc:
                found.add("pa=pb=pc")
    return found


def direction_predicted(ck):
    """specs/image/PredictedImage.tla: every sequence of row filter types, every assignment of tie-producing sample values; each
    image exported and read back"""
    from ..realise import codecs as K
    mod = "RunP"
    wrapper = os.path.join(ck.tmp, mod + ".tla")
    with open(wrapper, "w") as f:
        f.write("---- MODULE %s ----\nEXTENDS MC_PredictedImage\n====\n" % mod)
    for d, devset, shapes, rowtypes, palette in PREDICTED_TEETH:
        if ck.tier != "thorough" and d != "PaethTieByValue":
            continue
        cfg2 = write_cfg(os.path.join(ck.tmp, mod + "_teeth.cfg"),
                         constants={"Shapes": "<- " + shapes, "RowTypes": "<- " + rowtypes, "Palette": "<- " + palette, "DevChoices": "<- " + devset},
                         invariants=["P_SamplesBack"])
        r2 = run_tlc(wrapper, cfg2, workers=2, timeout=600, lib=LIB)
        ck.add_tlc(r2, "counterexample search: %s against P_SamplesBack" % d)
        if r2.ok or r2.violated != "P_SamplesBack":
            raise MachineryError("vacuous: %s does not violate SamplesBack in PredictedImage.tla" % d)
    total = 0
    for label, shapes, rowtypes, palette in PREDICTED_CONFIGS[ck.tier]:
        cfg = write_cfg(os.path.join(ck.tmp, mod + ".cfg"),
                        constants={"Shapes": "<- " + shapes, "RowTypes": "<- " + rowtypes, "Palette": "<- " + palette, "DevChoices": "<- OnlyIntended"},
                        invariants=["SamplesBack", "RefInverts", "EncLength"], constraints=["EmitTerminal"])
        emit = os.path.join(ck.tmp, mod + ".ndjson")
        res = run_tlc(wrapper, cfg, emit=emit, coverage=(ck.tier == "quick"), timeout=3600, lib=LIB)
        ck.add_tlc(res, "PredictedImage %s: %s" % (label, "every sequence of row filter types" if label == "row-types"
                                                  else "every assignment of tie-producing sample values under the Paeth filter"))
        if not res.ok:
            raise MachineryError("PredictedImage.tla violates %s on the intended design:\n%s" % (res.violated, res.error_text[:3000]))
        if res.actions:
            require_coverage(res, ["AWriteRow", "AWriteDone", "AReadRow", "AReadDone"])
        outroot = tempfile.mkdtemp(dir=ck.tmp)
        n = 0
        pairs = set()
        ties = set()
        for line in open(emit):
            rec = json.loads(line)
            n += 1
            pk, w, h, types = rec["kind"], rec["w"], rec["h"], rec["types"]
            bits, _, ncomp = R.PIX[pk]
            data = predicted_samples(rec)
            # two references against each other: the harness's predictor / un-predictor and the TLA+ row operators
            if K.png_predict(data, ncomp, w, bits, types) != bytes(rec["enc"]) or bytes(rec["out"]) != data \
                    or K.png_ref_unpredict(bytes(rec["enc"]), ncomp, w, bits) != data:
                raise MachineryError("PNG predictor references disagree for %s %dx%d row types %s" % (pk, w, h, types))
            if label == "paeth-ties" and types[-1] == 4:
                ties |= paeth_tie_classes(data, ncomp, w, h)
            chain = [["FlatePNG"], ["LZWPNG"], ["A85", "FlatePNG"]][n % 3]
            im = {"name": "P", "filters": chain, "pk": pk, "w": w, "h": h, "row_types": types, "samples": data}
            outdir = tempfile.mkdtemp(dir=outroot)
            err, files, _ = R.run_export(R.export_doc([im], variant=n), outdir)
            shutil.rmtree(outdir, ignore_errors=True)
            rp = {"imgs": [im], "preexisting": [], "origin": "predicted rows", "variant": n}
            what = "%s %dx%d (samples %s) through %s with PNG row filter types %s" % (pk, w, h, list(data) if len(data) <= 12 else "..",
                                                                                   "+".join(chain), types)
            pairs.update(zip(types, types[1:]))
            ck.case(1, ("png-rows", label, pk, w, h, tuple(types), tuple(rec["pix"])))
            ck.replayed += 1
            if err:
                ck.violation("exception:" + err, "export of %s raised %s" % (what, err), rp)
                continue
            blob = files.get("P.bmp")
            if blob is None:
                ck.violation("format:" + ",".join(files), "%s exported as %r, not as a bitmap" % (what, sorted(files)), rp)
                continue
            for wy in classify_bmp(blob, R.pdf_pixels(pk, w, h, data), w, h, {"bw": 1, "gray": 8, "rgb": 24}[pk]):
                ck.violation("bmp:" + wy.split(":")[0], "P.bmp does not read back as the samples of %s: %s" % (what, wy), rp)
        os.remove(emit)
        shutil.rmtree(outroot, ignore_errors=True)
        if n != res.emitted or n == 0:
            raise MachineryError("emitted %d terminal states but read %d" % (res.emitted, n))
        if label == "row-types" and len(pairs) != 25:
            raise MachineryError("only %d of the 25 pairs of consecutive row filter types were realised" % len(pairs))
        if label == "paeth-ties":
            need = {"pb=pc:above>upper-left", "pb=pc:above<upper-left", "pa=pc:left>upper-left", "pa=pc:left<upper-left"}
            if not need <= ties or "pa=pb:left#above" in ties:
                raise MachineryError("Paeth ties realised: %s; wanted %s (pa = pb <= pc with left # above cannot occur)" % (sorted(ties), sorted(need)))
            ck.extra["paeth_tie_classes_realised"] = sorted(ties)
        total += n
        ck.extra.setdefault("predicted_images_per_config", {})[label] = n
    ck.extra["png_row_type_sequences_replayed"] = total


# ================================================================================================ JBIG2 (extended coverage)
JBIG2_SPEC = os.path.join(SPECS, "image", "MC_JBIG2.tla")
JBIG2_TRACE_SPEC = os.path.join(SPECS, "image", "JBIG2Trace.tla")
# deviations of jbig2.py / _save_jbig2 from T.88 modelled as coded (extended coverage: reported as notes, never as violations)
JB_DEVS = ["RefWidth4", "Retain7Bits", "LongCountDropped", "PageAssocShort", "ZeroLenNoData", "GlobalsRstrip", "GlobalsRequired"]
JBIG2_CONFIGS = {
    "quick": [("refs", "NoGlobals", "RefLists", "DirectModes"), ("single", "NoGlobals", "SingleListsQuick", "DirectModes"),
              ("export", "GlobalChoices", "ExportLists", "ExportMode")],
    "thorough": [("refs", "NoGlobals", "RefLists", "DirectModes"), ("single", "NoGlobals", "SingleLists", "DirectModes"),
                 ("pages", "NoGlobals", "PageLists", "WriteFileMode"), ("export", "GlobalChoices", "ExportLists", "ExportMode"),
                 ("export-pages", "GlobalOne", "PageListsQuick", "ExportMode")],
}
JBIG2_ACTIONS = ["AConcat", "AReadSegment", "AReadDone", "AWriteHeader", "AWriteSegment", "AWriteEOP", "AWriteEOF", "ARoundDone"]


def ext(ck, key, n=1):
    d = ck.extra.setdefault("extended_coverage", {})
    d[key] = d.get(key, 0) + n


def seg_py(s):
    return {"num": s["num"], "type": s["type"], "deferred": s["deferred"], "palong": s["palong"], "page": s["page"], "refs": list(s["refs"]),
            "retain": list(s["retain"]), "data": list(s["data"])}


def jb_model_view(rec):
    return rec["status"] if rec["phase"] == "error" else "ok", rec["parsed"] if rec["phase"] != "error" or rec["status"].startswith("write") else None, bytes(rec["out"])


def replay_jbig2(ck, recs, outroot, label, notes):
    ideal = recs[""]
    coded = recs[dkey(JB_DEVS)]
    mode = ideal["mode"]
    gsegs = [seg_py(s) for s in ideal["gsegs"]]
    isegs = [seg_py(s) for s in ideal["segs"]]
    gx = b"".join(R.jb2_encode(s) for s in gsegs)
    ix = b"".join(R.jb2_encode(s) for s in isegs)
    # two references (TLA+ EncStd, Python jb2_encode) must agree
    if mode != "export" or ideal["phase"] != "error":
        if bytes(ideal["x"]) != gx + ix:
            raise MachineryError("JBIG2 reference encoders disagree on %r" % (gsegs + isegs,))
    if mode == "export":
        outdir = tempfile.mkdtemp(dir=outroot)
        err, files, _ = R.run_export(R.jbig2_doc(ix, gx if gsegs else None), outdir)
        shutil.rmtree(outdir, ignore_errors=True)
        # the same image inside an encrypted document exports the same file
        for envn in ("RC4", "AESV2"):
            outdir = tempfile.mkdtemp(dir=outroot)
            err2, files2, _ = R.run_export(R.jbig2_doc(ix, gx if gsegs else None, encrypt=envn), outdir)
            shutil.rmtree(outdir, ignore_errors=True)
            if (err2, files2) != (err, files):
                ext(ck, "jbig2:encrypted-export-differs")
                if "enc" not in notes:
                    notes.add("enc")
                    ck.note("extended coverage (JBIG2): export from a document encrypted with %s differs from the plain document's (%s / %s)"
                            % (envn, err2, err))
        real = ("ok" if not err else {"KeyError": "concat:KeyError" if not gsegs else "write:KeyError", "error": "write:struct.error"}.get(err.split("@")[0], err),
                None, files.get("Im1.jb2", b"") if not err else b"")
    else:
        st, dicts, out = R.jbig2_direct(bytes(ideal["x"]), mode)
        real = (st, [R.jbig2_dict_view(d) for d in dicts], out)

    def same(rec):
        mst = "ok" if rec["phase"] != "error" else rec["status"]
        if real[0] != mst:
            return False
        if mst != "ok":
            return True
        if real[1] is not None and real[1] != rec["parsed"]:
            return False
        return real[2] == bytes(rec["out"])
    ck.case(1, ("jbig2", label, json.dumps(ideal["gsegs"]), json.dumps(ideal["segs"]), mode))
    # the file-level predicate, evaluated independently on the real result
    if mode != "roundtrip" and real[0] == "ok":
        try:
            npages, got = R.jb2_parse_file(real[2])
            if got != R.jb2_expected_file(gsegs + isegs):
                ext(ck, "jbig2:file-parses-back-differently")
        except (ValueError, IndexError, Exception):  # noqa: BLE001
            ext(ck, "jbig2:file-does-not-parse")
    if same(ideal):
        return
    singles = [d for d in JB_DEVS if d in recs and same(recs[d])]
    if singles or same(coded):
        blame = singles or [d for d in JB_DEVS if d in recs and json.dumps([recs[d]["phase"], recs[d]["status"], recs[d]["parsed"], recs[d]["out"]]) !=
                            json.dumps([ideal["phase"], ideal["status"], ideal["parsed"], ideal["out"]])]
        for d in blame or ["combination"]:
            ext(ck, "jbig2:" + d)
            if d not in notes:
                notes.add(d)
                ck.note("extended coverage (JBIG2, %s): %s on segments %s: the code gives %s, T.88 asks for %s"
                        % (d, mode, json.dumps(ideal["gsegs"] + ideal["segs"])[:300], real[0] if real[0] != "ok" else real[2].hex()[:120],
                           bytes(ideal["out"]).hex()[:120]))
        return
    ext(ck, "jbig2:unexplained")
    if "unexplained" not in notes:
        notes.add("unexplained")
        ck.note("extended coverage (JBIG2): %s on %s: real %r explained by neither model (as coded: %s %s)"
                % (mode, json.dumps(ideal["segs"])[:300], (real[0], real[2].hex()[:80]), coded["status"], bytes(coded["out"]).hex()[:80]))


def direction_jbig2(ck):
    R.jb2_self_check()
    outroot = tempfile.mkdtemp(dir=ck.tmp)
    notes = set()
    sets = [[]] + [JB_DEVS] + [[d] for d in JB_DEVS]
    devs = "{" + ", ".join("{" + ", ".join('"%s"' % d for d in ds) + "}" for ds in sets) + "}"
    n_replayed = 0
    for (label, glists, slists, modes) in JBIG2_CONFIGS[ck.tier]:
        mod = "RunJ_" + label.replace("-", "_")
        wrapper = os.path.join(ck.tmp, mod + ".tla")
        with open(wrapper, "w") as f:
            f.write("---- MODULE %s ----\nEXTENDS MC_JBIG2\nTheDevs == %s\n====\n" % (mod, devs))
        cfg = write_cfg(os.path.join(ck.tmp, mod + ".cfg"),
                        constants={"GlobalLists": "<- " + glists, "SegLists": "<- " + slists, "Modes": "<- " + modes, "DevChoices": "<- TheDevs"},
                        invariants=["NoError", "ReaderInverts", "RoundTrip", "FileParsesBack", "RefsAgree"], constraints=["EmitTerminal"])
        emit = os.path.join(ck.tmp, mod + ".ndjson")
        cov = ck.tier == "quick" and label in ("export",)
        res = run_tlc(wrapper, cfg, emit=emit, coverage=cov, timeout=3600, lib=LIB)
        ck.add_tlc(res, "JBIG2 %s" % label)
        if not res.ok:
            raise MachineryError("JBIG2.tla violates %s on the intended design (%s):\n%s" % (res.violated, label, res.error_text[:3000]))
        groups = {}
        n = 0
        for line in open(emit):
            rec = json.loads(line)
            n += 1
            groups.setdefault(json.dumps([rec["gsegs"], rec["segs"], rec["mode"]], sort_keys=True), {})[dkey(rec["dev"])] = rec
        os.remove(emit)
        if n != res.emitted or n == 0:
            raise MachineryError("emitted %d terminal states but read %d" % (res.emitted, n))
        for gi, (key, recs) in enumerate(groups.items()):
            replay_jbig2(ck, recs, outroot, label, notes)
            n_replayed += 1
            ck.replayed += 1
    shutil.rmtree(outroot, ignore_errors=True)
    ck.extra["jbig2_cases_replayed"] = n_replayed
    jbig2_samples(ck)


def jbig2_samples(ck):
    """the JBIG2 images of the repository's samples: embedded segments vs the exported file, and header-level trace validation"""
    from pdfminer.high_level import extract_pages
    from pdfminer.jbig2 import JBIG2StreamReader, JBIG2StreamWriter
    from pdfminer.layout import LTFigure, LTImage
    from pdfminer.pdftypes import LITERALS_JBIG2_DECODE
    traces = []
    for fn in sorted(glob.glob("/repo/samples/**/*jbig2*.pdf", recursive=True)):
        origin = os.path.relpath(fn, "/repo")
        found = []

        def walk(o):
            for c in o:
                if isinstance(c, LTImage):
                    fl = c.stream.get_filters()
                    if any(f in LITERALS_JBIG2_DECODE for f, _ in fl):
                        gl = b""
                        for f, params in fl:
                            if f in LITERALS_JBIG2_DECODE and params and "JBIG2Globals" in params:
                                gl += params["JBIG2Globals"].resolve().get_data()
                        found.append((c.name, gl, c.stream.get_data()))
                elif isinstance(c, LTFigure):
                    walk(c)
        with open(fn, "rb") as fh:
            for page in extract_pages(fh):
                walk(page)
        for (imname, gl, data) in found:
            try:
                emb = R.jb2_parse(gl) + R.jb2_parse(data)
            except ValueError as e:
                ext(ck, "jbig2:sample-embedded-stream-unreadable")
                ck.note("extended coverage (JBIG2): embedded stream of %s in %s not readable by the reference parser: %s" % (imname, origin, e))
                continue
            outdir = tempfile.mkdtemp(dir=ck.tmp)
            err, files, _ = R.run_export(open(fn, "rb").read(), outdir)
            shutil.rmtree(outdir, ignore_errors=True)
            ck.case(1, ("jbig2-sample", origin, imname))
            blob = next((v for k2, v in files.items() if k2.endswith(".jb2")), None)
            if err or blob is None:
                ext(ck, "jbig2:sample-export-failed")
                ck.note("extended coverage (JBIG2): exporting %s of %s: %s" % (imname, origin, err))
            else:
                try:
                    _, got = R.jb2_parse_file(blob)
                    want = R.jb2_expected_file(emb if not gl.endswith(b"\n") else emb)
                    if got != want:
                        ext(ck, "jbig2:sample-file-parses-back-differently")
                        ck.note("extended coverage (JBIG2): %s exported from %s holds segments %r, embedded are %r"
                                % (imname, origin, [(s["num"], s["type"], len(s["data"])) for s in got], [(s["num"], s["type"], len(s["data"])) for s in want]))
                    else:
                        ck.extra["jbig2_sample_files_parse_back"] = ck.extra.get("jbig2_sample_files_parse_back", 0) + 1
                except Exception as e:  # noqa: BLE001
                    ext(ck, "jbig2:sample-file-does-not-parse")
                    ck.note("extended coverage (JBIG2): %s exported from %s is not a readable JBIG2 file: %s" % (imname, origin, e))
            # header-level trace: what the real reader / writer do with each embedded segment header
            segs = []
            pos = 0
            stream = gl + data
            dicts = JBIG2StreamReader(io.BytesIO(stream)).get_segments()
            for s, d in zip(emb, dicts):
                full = R.jb2_encode(s)
                hb = full[:len(full) - len(s["data"])]
                view = R.jbig2_dict_view(d)
                view["data"] = []
                try:
                    wb = JBIG2StreamWriter(io.BytesIO()).encode_segment(d)
                    ws, wb = "ok", wb[:len(wb) - len(d.get("raw_data", b""))]
                except KeyError:
                    ws, wb = "KeyError", b""
                except Exception as e:  # noqa: BLE001
                    ws, wb = "struct.error", b""
                segs.append({"hb": list(hb), "rd": view, "ws": ws, "wb": list(wb)})
            traces.append({"origin": origin + ":" + imname, "segs": segs})
    if traces:
        tf = os.path.join(ck.tmp, "c18_jbig2_traces.json")
        with open(tf, "w") as f:
            json.dump(traces, f)
        cfg = write_cfg(os.path.join(ck.tmp, "c18_jbig2_trace.cfg"), constants={"Dev": tla_set(JB_DEVS)}, spec="Spec",
                        invariants=["RefAgrees"], deadlock=True)
        res = run_tlc(JBIG2_TRACE_SPEC, cfg, workers=1, env={"TRACE_FILE": tf}, timeout=600)
        ck.add_tlc(res, "JBIG2 header traces of %d embedded streams" % len(traces))
        if res.ok:
            ck.traces += len(traces)
            ck.extra["jbig2_sample_segments_validated"] = sum(len(t["segs"]) for t in traces)
        else:
            ext(ck, "jbig2:sample-trace-rejected")
            st = res.error_trace[-1][1] if res.error_trace else {}
            ck.note("extended coverage (JBIG2): header trace rejected (%s) at trace %s segment %s" % (res.violated, st.get("t"), st.get("k")))
        # vacuity: a corrupted recording must be rejected
        bad = json.loads(json.dumps(traces[:1]))
        bad[0]["segs"][0]["rd"]["page"] += 1
        with open(tf, "w") as f:
            json.dump(bad, f)
        res = run_tlc(JBIG2_TRACE_SPEC, cfg, workers=1, env={"TRACE_FILE": tf}, timeout=600)
        if res.ok:
            raise MachineryError("vacuous JBIG2 trace validation: a corrupted recording was accepted")
        ck.extra["jbig2_corrupted_trace_rejected"] = True


# ================================================================================================ entry points
def run(ck):
    R.self_check()
    dimg = active("image")
    dinl = active("inline")
    for d in dimg:
        if d not in IMG_DEVS:
            raise MachineryError("unknown image deviation %s" % d)
    for d in dinl:
        if d not in INL_DEVS:
            raise MachineryError("unknown inline deviation %s" % d)
    ck.extra["deviations_modelled_as_coded"] = {"image": dimg, "inline": dinl}
    ck.rule = ("A/export: every (geometry w,h in 1..5, pixel kind 1-bit/gray/RGB, unfiltered or Flate) image, every filter chain of up to 2 "
               "filters x pixel kind x 2x1, every sequence of up to 3 images over 3 names x 2 formats x 3 directory states, each written "
               "into a document and exported; non-trivial = the image is inside the property's quantifier (gray/RGB/1-bit, lossless chain "
               "or DCT). A/inline: every data string over {E,I,SP,CR,LF,x} up to the bound x 2 writer styles x followers x BUFSIZ, and "
               "every /F spelling x content-array division, through the real PDFContentParser and (sampled) as document pages; "
               "non-trivial = non-empty data not containing the end marker. B: export events over repository samples; distinct by "
               "(file, image, exported name).")
    ck.assumptions = ["zlib/LZW/RunLength/ASCII85/ASCIIHex encoders of the harness are round-trip self-checked; their decoders are C03's subject",
                      "DCT payloads are opaque blobs (pass-through is the property); JPX/JBIG2/CMYK writers need Pillow or JBIG2 globals and are "
                      "model-only", "a writer that puts no EOL before EI must not end the data with one (the reader removes one EOL by design)",
                      "ASCII85 inline data is compared up to trailing white space before ~>, which the encoding ignores"]
    import time
    t0 = time.time()
    phases = {}
    for name, fn in (("teeth", lambda: (export_teeth(ck), inline_teeth(ck)) if ck.tier == "thorough" else None), ("export_replay", lambda: direction_a_export(ck, dimg)),
                     ("predicted_rows", lambda: direction_predicted(ck)),
                     ("inline_replay", lambda: direction_a_inline(ck, dinl)), ("sample_traces", lambda: direction_b(ck, dimg)),
                     ("jbig2_extended", lambda: direction_jbig2(ck))):
        fn()
        phases[name] = round(time.time() - t0, 1)
        t0 = time.time()
    ck.extra["phase_wall_s"] = phases
    ck.exhaustive = True


def replay(path):
    doc = json.load(open(path))
    case = unjson(doc["case"])
    print("key:", doc["key"])
    print(doc["what"])
    bad = False
    if "content" in case:
        R.self_check()
        content, B, cp, lead = case["content"], case["bufsiz"], case.get("cutpos", 0), case.get("lead", [])
        if case.get("level") == "document":
            pages = R.inline_pages(R.inline_doc([(content, cp, lead)]), B)
            print("LTImage items / glyphs:", pages)
            bad = True
        else:
            err, out = R.scan_content(R.lead_streams(lead) + R.split_content(content, cp), B)
            print("real parser:", err, out)
            data = case.get("data")
            view = real_view(err, out)
            bad = view[0] != "done" or (data is not None and view[1] != data and not view[1].endswith(b"~>"))
    elif "imgs" in case:
        R.self_check()
        outdir = tempfile.mkdtemp()
        for fn in case.get("preexisting", []):
            open(os.path.join(outdir, fn), "wb").write(b"already here")
        err, files, _ = R.run_export(R.export_doc(case["imgs"], variant=case.get("variant", 0),
                                                 encrypt=None if case.get("env", "plain") == "plain" else case["env"]), outdir)
        print("error:", err, "files:", {k: len(v) for k, v in files.items()})
        bad = bool(err)
        for nm, blob in files.items():
            im = next((i for i in case["imgs"] if nm.startswith(i["name"])), case["imgs"][0])
            if nm.endswith(".bmp") and in_domain(im):
                why = classify_bmp(blob, R.pdf_pixels(im["pk"], im["w"], im["h"], R.image_data(im["pk"], im["w"], im["h"])), im["w"], im["h"],
                                   {"bw": 1, "gray": 8, "rgb": 24}[im["pk"]])
                print(nm, why or "reads back")
                bad |= bool(why)
        shutil.rmtree(outdir, ignore_errors=True)
    else:
        print("sample-based case:", case)
        bad = True
    if bad:
        print("VIOLATION property=C18 replay=%s" % path)
        return 1
    print("not reproduced on this tree")
    return 0
