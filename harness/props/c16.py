"""C16 - painted paths become shapes with the right points, class and graphics state (specs/interp/ContentInterp.tla)."""
from ..tlc import MachineryError
from . import interp_common as IC
from .c05 import replay  # noqa: F401

GROUPS = {"quick": ["InitPath(3)", "InitPaint(3)", "InitPathCtm(3)", "InitColor(3)", "InitColorRes(2)", "InitPass(2)", "InitZero", "InitZero2", "InitDeepQ", "InitMixed"],
          "thorough": ["InitPath(4)", "InitPaint(4)", "InitPathCtm(4)", "InitColor(4)", "InitColorRes(4)", "InitPass(3)", "InitZero", "InitZero2", "InitDeepQ", "InitMixed"]}


def run(ck):
    IC.check_forms_transcription()
    cover = {}
    for init in GROUPS[ck.tier]:
        IC.run_group(ck, "C16", init, {"shapes"}, cover)
    if cover:
        missing = [a for a in ["m", "l", "c", "v", "y", "h", "re", "S", "s", "f", "F", "f*", "B", "B*", "b", "b*", "n", "w", "d", "q", "Q", "cm", "g", "G", "rg", "RG",
                               "k", "K", "cs", "CS", "sc", "scn", "SCN"] if not cover.get(a)]
        if missing:
            raise MachineryError("vacuous: interpreter action(s) never taken: %s" % missing)
    IC.direction_b(ck, "C16")
    ck.rule = ("every program of up to L operator instances per group (path construction/painting; paths under rotating and shearing "
               "CTMs with q/Q, w, d; colour operators incl. cs/CS/sc/scn/SC/SCN) enumerated by TLC and run as one page each; the "
               "shape list (class, points, flags, line width, dash, colours) must equal the model's; non-trivial = paints at least "
               "one shape; distinct by content-stream bytes")
    ck.assumptions = ["LTRect points are compared as the corner set; a redundant closing `l` before `h` is dropped on both sides",
                      "a subpath consisting of a lone `m` has no segment and yields no shape (the code's one-point curve for a path that is a single `m` is the known finding dev:LoneMoveShape)",
                      "a colour that was never set is reported as None"]
    ck.exhaustive = True
