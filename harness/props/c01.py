"""C01 - object syntax round trip.

A. TLC enumerates spelled cases (specs/obj/MC_PSObj.tla: every spelling of Spell.tla for the leaf pools, contexts,
   separators, dictionaries, nesting, top-level sequences), checks IdealRoundTrip / LexBufferIndependent / StackSane
   on every case and steps the as-coded parser machine; every terminal state is replayed on the real
   PDFStreamParser (several BUFSIZ) or, for the `doc` variant, as `n 0 obj ... endobj` inside generated files
   through PDFDocument.getobj.
B. an independent spelling driver writes deep random trees; (bytes, value, what pdfminer read) records are
   validated by TLC against specs/obj/PSObjTrace.tla.
"""
import io
import json
import logging
import os
import random

logging.disable(logging.CRITICAL)

from ..core import unjson  # noqa: E402
from ..deviations import active, tla_set  # noqa: E402
from ..tlc import MachineryError, SPECS, require_coverage, run_tlc, write_cfg  # noqa: E402

from pdfminer.pdfdocument import PDFDocument  # noqa: E402
from pdfminer.pdfparser import PDFParser, PDFStreamParser  # noqa: E402
from pdfminer.pdftypes import PDFObjRef  # noqa: E402
from pdfminer.psparser import LIT, PSBaseParser, PSEOF, PSKeyword, PSLiteral  # noqa: E402

SPEC = os.path.join(SPECS, "obj", "MC_PSObj.tla")
TRACE_SPEC = os.path.join(SPECS, "obj", "PSObjTrace.tla")
ACTIONS = ["ALex", "APush", "ABegin", "AEndArray", "AEndDict", "AKwR", "AKwNull", "AFinish"]
INITS = {"quick": ["InitQuickA", "InitQuickB"], "thorough": ["InitFullA", "InitFullB", "InitFullC"]}
LEX_DEVS = ["OctAssert", "CRLFInBuf", "HexOddLow", "HexNulEnds", "RawEOLKept", "NulNotDelim", "EscCharDropped", "LitHexEOFLost"]
PARSE_DEVS = ["StreamNullKw", "StreamTopRef"]


# ------------------------------------------------------------------------------------------------ projection
def proj(o):
    """real pdfminer object -> comparable python value"""
    if o is None:
        return ("null",)
    if isinstance(o, bool):
        return ("bool", o)
    if isinstance(o, int):
        return ("num", float(o), "int")
    if isinstance(o, float):
        return ("num", o, "real")
    if isinstance(o, bytes):
        return ("str", o)
    if isinstance(o, PSLiteral):
        # a name is its bytes; the library's convention on top of that: .name is a str when the bytes are UTF-8 and bytes
        # otherwise, and name objects are interned (the whole library compares names by identity)
        n = o.name
        return ("name", n if isinstance(n, bytes) else n.encode("utf-8"), "str" if isinstance(n, str) else "bytes", LIT(n) is o)
    if isinstance(o, PSKeyword):
        return ("kw", o.name)
    if isinstance(o, PDFObjRef):
        return ("ref", o.objid)
    if isinstance(o, list):
        return ("arr", tuple(proj(x) for x in o))
    if isinstance(o, dict):
        return ("dict", frozenset(((k.encode("utf-8") if isinstance(k, str) else k), proj(v)) for k, v in o.items()))
    return ("other", repr(o))


def conv(j):
    """value emitted by the spec (VJ json) -> same comparable python value"""
    k, v = j["k"], j["v"]
    if k == "null":
        return ("null",)
    if k == "bool":
        return ("bool", bool(v[0]))
    if k == "int":
        return ("num", float(v[0]), "int")
    if k == "real":
        return ("num", float("%de-%d" % (v[0], v[1])), "real")
    if k == "name":
        b = bytes(v)
        try:
            b.decode("utf-8")
            rep = "str"
        except UnicodeDecodeError:
            rep = "bytes"
        return ("name", b, rep, True)
    if k in ("str", "kw"):
        return (k, bytes(v))
    if k == "ref":
        return ("ref", v[0])
    if k == "arr":
        return ("arr", tuple(conv(x) for x in v))
    if k == "dict":
        return ("dict", frozenset((bytes(p[0]), conv(p[1])) for p in v))
    raise MachineryError("unknown value kind %r" % k)


_stream_cls = {}


def read_stream(data, B):
    c = _stream_cls.get(B)
    if c is None:
        c = _stream_cls[B] = type("SP%d" % B, (PDFStreamParser,), {"BUFSIZ": B})
    p = c(data)
    out = []
    try:
        for _ in range(4 * len(data) + 8):
            (_, o) = p.nextobject()
            out.append(proj(o))
        return out, "NoProgress"
    except PSEOF:
        return out, None
    except BaseException as e:
        return out, type(e).__name__


def read_docs(bodies, B, pad=0):
    """bodies: list of object bodies; written as `n 0 obj ... endobj` into one file; -> list of (value, err)"""
    out = io.BytesIO()
    out.write(b"%PDF-1.4\n" + b"%" + b"x" * pad + b"\n")
    offs = {}
    objs = {1: b"<< /Type /Catalog /Pages 2 0 R >>", 2: b"<< /Type /Pages /Kids [] /Count 0 >>"}
    for i, b in enumerate(bodies):
        objs[i + 3] = b
    for n, b in objs.items():
        offs[n] = out.tell()
        out.write(b"%d 0 obj " % n + b + b" endobj \n")
    x = out.tell()
    N = max(objs) + 1
    out.write(b"xref\n0 %d\n0000000000 65535 f \n" % N)
    for n in range(1, N):
        out.write(b"%010d 00000 n \n" % offs[n])
    out.write(b"trailer\n<< /Size %d /Root 1 0 R >>\nstartxref\n%d\n%%%%EOF\n" % (N, x))
    old = PSBaseParser.BUFSIZ
    PSBaseParser.BUFSIZ = B
    res = []
    try:
        doc = PDFDocument(PDFParser(io.BytesIO(out.getvalue())), caching=False)
        for i in range(len(bodies)):
            try:
                first = proj(doc.getobj(i + 3))
                # the document is opened with caching off: a second look-up reads the object again and must agree
                again = proj(doc.getobj(i + 3))
                res.append((first, None) if again == first else (("other", "second getobj differs: %r" % (again,)), None))
            except BaseException as e:
                res.append((None, type(e).__name__))
    finally:
        PSBaseParser.BUFSIZ = old
    return res


# ------------------------------------------------------------------------------------------------ verdicts
def judge(ck, rec, observed, err, how, counters):
    """rec: the spec's record for a case; observed: list of projected real values."""
    want = [conv(x) for x in rec["want"]]
    data = bytes(rec["d"])
    if err is None and observed == want:
        if not rec["ok"]:
            counters["drift"] += 1
            if counters["drift"] <= 5:
                ck.note("drift: code reads %r back correctly (%s) but the as-coded model does not" % (data, how))
        return True
    got = [conv(x) for x in rec["got"]]
    merr = None if rec["err"] == "none" else rec["err"]
    same_as_model = (not rec["ok"]) and ((merr is not None and err == merr) or (merr is None and err is None and observed == got)
                                         # the model gives no prediction once a deviation has turned a dictionary key into a
                                         # non-name (the code then uses Python's str() of the object as key)
                                         or merr == "non-name-key")
    if same_as_model and rec["blame"]:
        for d in rec["blame"]:
            ck.violation("dev:" + d, "spelling %r read back as %r, expected %r" % (data, observed, want),
                         {"data": data, "how": how, "want": repr(want), "observed": repr(observed), "error": err})
        return False
    kind = want[0][0] if want else "empty"
    ck.violation("roundtrip:%s:%s" % (how.split(":")[0], "error:" + err if err else kind),
                 "%s: %r read back as %r%s, the value written is %r" % (how, data, observed, " (%s)" % err if err else "", want),
                 {"data": data, "how": how, "want": repr(want), "observed": repr(observed), "error": err,
                  "model_got": repr(got), "model_blame": rec["blame"]})
    return False


def direction_a(ck, dev, pdev):
    counters = {"drift": 0}
    cover = {}
    for init in INITS[ck.tier]:
        cfg = write_cfg(os.path.join(ck.tmp, "c01_%s.cfg" % init),
                        constants={"Dev": tla_set(dev) if dev else "<- NoDev", "PDev": tla_set(pdev) if pdev else "<- NoDev",
                                   "BufSizes": "<- Bufs"},
                        init=init, next="Next",
                        invariants=["IdealRoundTrip", "LexBufferIndependent", "StackSane"] + ([] if (dev or pdev) else ["RoundTrip"]),
                        constraints=["EmitTerminal"])
        emit = os.path.join(ck.tmp, "c01_%s.ndjson" % init)
        res = run_tlc(SPEC, cfg, emit=emit, coverage=(ck.tier == "quick"), timeout=7200)
        ck.add_tlc(res, init)
        if not res.ok:
            raise MachineryError("the specification itself is inconsistent (%s violated on %s): Spell.tla and the intended "
                                 "reader disagree, or the tokenizer model is buffer dependent\n%s"
                                 % (res.violated, init, res.error_text[:3000]))
        for a, c in res.actions.items():
            cover[a] = cover.get(a, 0) + c[1]
        recs = [json.loads(l) for l in open(emit)]
        os.remove(emit)
        if len(recs) != res.emitted or not recs:
            raise MachineryError("emitted %d, read %d" % (res.emitted, len(recs)))
        # stream variant: direct; doc variant: packed into generated files
        docs = []
        for r in recs:
            data = bytes(r["d"])
            if r["variant"] == "stream":
                results = {B: read_stream(data, B) for B in (1, 3, 4096)}
                ref = results[4096]
                for B, rr in results.items():
                    if rr != ref:
                        ck.violation("buffer-dependent", "PDFStreamParser reads %r differently at BUFSIZ=%d and 4096: %r vs %r"
                                     % (data, B, rr, ref), {"data": data, "bufsiz": B, "how": "stream"})
                if data.endswith(b" ") and not data.endswith(b"  "):
                    # the same bytes as the very last bytes of the input (the last member of an object stream): the object
                    # must not depend on a byte following it
                    for B in (1, 4096):
                        bare = read_stream(data[:-1], B)
                        if bare != ref:
                            ck.violation("end-of-input", "PDFStreamParser reads %r differently when nothing follows it (BUFSIZ=%d): %r vs %r"
                                         % (data[:-1], B, bare, ref), {"data": data[:-1], "bufsiz": B, "how": "stream"})
                            break
                ok = judge(ck, r, ref[0], ref[1], "stream", counters)
                ck.case(3, ("s", data) if len(r["want"]) and ok is not None else None)
                ck.replayed += 1
                if ck.replayed % 9000 == 1:
                    ck.sample({"bytes": data, "variant": "stream", "read_back": repr(ref[0]), "value": repr([conv(x) for x in r["want"]])})
            else:
                docs.append(r)
        CH = 400
        for i in range(0, len(docs), CH):
            chunk = docs[i:i + CH]
            bodies = [bytes(r["d"])[:-8] for r in chunk]      # strip the model's " endobj " suffix
            runs = [read_docs(bodies, 4096, 0), read_docs(bodies, 5, 4091), read_docs(bodies, 4096, 8186)]
            for k, r in enumerate(chunk):
                v0 = runs[0][k]
                for n, run_ in enumerate(runs[1:]):
                    if run_[k] != v0:
                        ck.violation("offset-or-buffer-dependent",
                                     "getobj reads %r differently at another file offset / BUFSIZ: %r vs %r" % (bodies[k], run_[k], v0),
                                     {"data": bodies[k], "how": "doc", "run": n + 1})
                obs = [] if v0[0] is None else [v0[0]]
                judge(ck, r, obs, v0[1], "doc", counters)
                ck.case(3, ("d", bodies[k]))
                ck.replayed += 1
                if ck.replayed % 9000 == 2:
                    ck.sample({"bytes": bodies[k], "variant": "doc (n 0 obj ... endobj via PDFDocument.getobj)", "read_back": repr(obs)})
    if cover:
        missing = [a for a in ACTIONS if not cover.get(a)]
        if missing:
            raise MachineryError("vacuous: parser action(s) never taken: %s" % missing)
    ck.extra["model_code_drift"] = counters["drift"]


# ------------------------------------------------------------------------------------------------ direction B
class Speller:
    """Independent spelling driver (Python): writes a random tree with randomly chosen conformant spellings."""

    def __init__(self, rng, avoid):
        self.r = rng
        self.avoid = avoid      # spelling features to avoid (none: every conformant feature is used)

    SEPS = [b" ", b"\t", b"\n", b"\r", b"\r\n", b"\x0c", b"\x00", b"%c\n", b"%\r", b"  "]
    DELIMS = b"()<>[]{}/%"
    WSP = b"\x00\t\n\x0c\r "

    def regular(self, c):
        return c not in self.DELIMS and c not in self.WSP

    def need_sep(self, a, b):
        return bool(a) and bool(b) and (self.regular(a[-1]) or a[-1] == 47) and self.regular(b[0])

    def join(self, parts):
        out = b""
        for p in parts:
            if self.need_sep(out, p) or self.r.random() < 0.4:
                out += self.r.choice(self.SEPS) if self.r.random() < 0.7 else b" "
            out += p
        return out

    def num(self, v):
        r = self.r
        if isinstance(v, int):
            s = str(abs(v))
            s = r.choice(["", "0", "00"]) + s
            sign = "-" if v < 0 else r.choice(["", "+"])
            return (sign + s).encode()
        m, sc = v
        a = abs(m)
        ip, fp = divmod(a, 10 ** sc)
        I = str(ip)
        F = str(fp).rjust(sc, "0") if sc else ""
        I = r.choice([I, "0" + I] + ([""] if I == "0" and F else []))
        F = r.choice([F, F + "0"])
        sign = "-" if m < 0 else r.choice(["", "+"])
        return (sign + I + "." + F).encode()

    def name(self, b):
        out = b"/"
        for c in b:
            raw_ok = (33 <= c <= 126 and c not in self.DELIMS and c != 35) or c > 126
            if raw_ok and self.r.random() < 0.6:
                out += bytes([c])
            else:
                out += (b"#%02X" if self.r.random() < 0.5 else b"#%02x") % c
        return out

    def lit(self, b):
        r = self.r
        atoms = []
        esc = {10: b"n", 13: b"r", 9: b"t", 8: b"b", 12: b"f", 40: b"(", 41: b")", 92: b"\\"}
        for c in b:
            opts = [b"\\%03o" % c]
            if c not in (40, 41, 92, 13):
                opts.append(bytes([c]))
            if c in esc:
                opts.append(b"\\" + esc[c])
            if c == 10:
                opts += [b"\r", b"\r\n"]
            if c < 64:
                opts.append(b"\\%02o" % c)
            if c < 8:
                opts.append(b"\\%o" % c)
            atoms.append(r.choice(opts))
            if r.random() < 0.1:
                atoms.append(r.choice([b"\\\n", b"\\\r", b"\\\r\n"]))
        # repair adjacency constraints deterministically
        out = b""
        for i, a in enumerate(atoms):
            nxt = atoms[i + 1] if i + 1 < len(atoms) else b")"
            short = a[:1] == b"\\" and len(a) in (2, 3) and a[1:].isdigit()
            if short and nxt[:1].isdigit():
                a = b"\\%03o" % int(a[1:], 8)
            if a[-1:] == b"\r" and nxt[:1] == b"\n":
                a = b"\\n" if a in (b"\r",) else a + b"\\\n"[:0]
                if a[-1:] == b"\r":      # a continuation ending in CR before a raw LF: use the LF form instead
                    a = b"\\\n"
            out += a
        # balanced raw parentheses: wrap the whole body sometimes
        if r.random() < 0.15:
            return b"((" + out + b"))", b"(" + b + b")"
        return b"(" + out + b")", b

    def hexs(self, b):
        r = self.r
        d = b.hex()
        d = "".join(ch.upper() if r.random() < 0.5 else ch for ch in d)
        if b and b[-1] % 16 == 0 and r.random() < 0.3:
            d = d[:-1]
        out = ""
        for ch in d:
            if r.random() < 0.15:
                out += r.choice([" ", "\n", "\r", "\t", "\x0c", "\x00"])
            out += ch
        return b"<" + out.encode("latin-1") + b">"

    def tree(self, depth):
        """-> (bytes, VJ json)"""
        r = self.r
        k = r.choice(["int", "real", "name", "lit", "hex", "null", "bool", "ref", "arr", "dict"] if depth > 0
                     else ["int", "real", "name", "lit", "hex", "null", "bool", "ref"])
        if k == "int":
            v = r.choice([0, 1, -1, 7, 42, -300, 65535, 100000])
            return self.num(v), {"k": "int", "v": [v]}
        if k == "real":
            m, s = r.choice([(5, 1), (-325, 2), (4, 0), (2, 3), (314159, 5), (-1, 1), (12345, 1)])
            return self.num((m, s)), {"k": "real", "v": [m, s]}
        if k == "name":
            b = bytes(r.choice(b"AZaz09_-.+ #()/%<>\xe9\x80\xff!~") for _ in range(r.randrange(0, 7)))
            return self.name(b), {"k": "name", "v": list(b)}
        if k == "lit":
            b = bytes(r.choice(b"Ab7 \n\r\t\x08\x0c()\\\x00\xc8\xff%/<>") for _ in range(r.randrange(0, 9)))
            sp, val = self.lit(b)
            return sp, {"k": "str", "v": list(val)}
        if k == "hex":
            b = bytes(r.choice(b"\x4a\xa0\x00\x5f\xff\x10") for _ in range(r.randrange(0, 6)))
            return self.hexs(b), {"k": "str", "v": list(b)}
        if k == "null":
            return b"null", {"k": "null", "v": []}
        if k == "bool":
            t = r.random() < 0.5
            return (b"true" if t else b"false"), {"k": "bool", "v": [1 if t else 0]}
        if k == "ref":
            n = r.choice([1, 12, 345])
            return self.join([b"%d" % n, b"0", b"R"]), {"k": "ref", "v": [n]}
        if k == "arr":
            items = [self.tree(depth - 1) for _ in range(r.randrange(0, 5))]
            return self.join([b"["] + [i[0] for i in items] + [b"]"]), {"k": "arr", "v": [i[1] for i in items]}
        keys = r.sample([b"K", b"L", b"Type", b"A B", b"x#y"], r.randrange(0, 4))
        parts = [b"<<"]
        pairs = []
        for kb in keys:
            vb, vj = self.tree(depth - 1)
            parts += [self.name(kb), vb]
            if vj["k"] != "null":
                pairs.append([list(kb), vj])
        parts.append(b">>")
        return self.join(parts), {"k": "dict", "v": pairs}


def unproj(p):
    """projection -> VJ json (for the trace file)"""
    t = p[0]
    if t == "null":
        return {"k": "null", "v": []}
    if t == "bool":
        return {"k": "bool", "v": [1 if p[1] else 0]}
    if t in ("str", "name", "kw"):
        return {"k": t, "v": list(p[1])}
    if t == "ref":
        return {"k": "ref", "v": [p[1]]}
    if t == "arr":
        return {"k": "arr", "v": [unproj(x) for x in p[1]]}
    if t == "dict":
        return {"k": "dict", "v": [[list(k), unproj(v)] for k, v in sorted(p[1], key=repr)]}
    raise KeyError(t)


def num_vj(p):
    """a number read by pdfminer -> the spec's exact form: int <<n>> or real <<m, s>> (normalised), when one exists"""
    v, kind = p[1], p[2]
    if kind == "int":
        return {"k": "int", "v": [int(v)]} if abs(v) < 2 ** 31 else {"k": "kw", "v": list(b"?num")}
    for s_ in range(0, 8):
        m = round(v * 10 ** s_)
        if abs(m) < 2 ** 31 and float("%de-%d" % (m, s_)) == v:
            return {"k": "real", "v": [m, s_]}
    return {"k": "kw", "v": list(b"?num")}


def observed_vj(p, want=None):
    if p[0] == "num":
        return num_vj(p)
    if p[0] == "arr":
        return {"k": "arr", "v": [observed_vj(x) for x in p[1]]}
    if p[0] == "dict":
        return {"k": "dict", "v": [[list(k), observed_vj(v)] for k, v in sorted(p[1], key=repr)]}
    return unproj(p)


def direction_b(ck, dev, pdev):
    rng = random.Random(ck.seed * 7919 + 11)
    sp = Speller(rng, set())
    n = 250 if ck.tier == "quick" else 2500
    recs = []
    for i in range(n):
        depth = rng.choice([1, 2, 3, 4, 5])
        b, vj = sp.tree(depth)
        b += rng.choice([b" ", b"\n", b"\r\n"])
        if len(b) > 900:
            continue
        results = {B: read_stream(b, B) for B in (1, 2, 5, 4096)}
        ref = results[4096]
        for B, rr in results.items():
            if rr != ref:
                ck.violation("buffer-dependent", "PDFStreamParser reads %r differently at BUFSIZ=%d and 4096" % (b, B),
                             {"data": b, "bufsiz": B, "how": "stream"})
        obs, err = ref
        recs.append({"id": len(recs), "bytes": list(b), "want": [vj],
                     "observed": [observed_vj(o) for o in obs],
                     "err": err or "none", "_obs": obs})
    tf = os.path.join(ck.tmp, "c01_traces.json")
    cfg = write_cfg(os.path.join(ck.tmp, "c01_trace.cfg"),
                    constants={"Dev": tla_set(dev) if dev else "{}", "PDev": tla_set(pdev) if pdev else "{}", "BufSizes": "{1}"},
                    init="TInit", next="TNext", deadlock=True)
    todo = recs
    verdicts = {}
    rejected = 0
    while todo:
        json.dump([{k: v for k, v in r.items() if k != "_obs"} for r in todo], open(tf, "w"))
        emit = os.path.join(ck.tmp, "c01_trace.ndjson")
        res = run_tlc(TRACE_SPEC, cfg, workers=1, env={"TRACE_FILE": tf}, emit=emit, timeout=3600)
        ck.add_tlc(res, "trace validation of %d recorded read-backs" % len(todo))
        for l in open(emit):
            v = json.loads(l)
            verdicts[v["id"]] = v
        if res.ok:
            break
        if res.violated != "deadlock" or not res.error_trace:
            raise MachineryError("trace validation failed unexpectedly: " + res.error_text[:2000])
        idx = int(res.error_trace[-1][1]["i"])
        r = todo[idx - 1]
        rejected += 1
        ck.violation("trace-rejected:" + (("error:" + r["err"]) if r["err"] != "none" else r["want"][0]["k"]),
                     "pdfminer read %r back as %r (%s); neither the written value nor what the as-coded specification predicts"
                     % (bytes(r["bytes"]), r["_obs"], r["err"]),
                     {"data": bytes(r["bytes"]), "how": "stream", "want": r["want"], "observed": repr(r["_obs"]), "error": r["err"]})
        todo = todo[idx:]
        if rejected >= 3:
            ck.note("%d recorded read-backs left unexamined after 3 rejections" % len(todo))
            break
    for r in recs:
        v = verdicts.get(r["id"])
        if v is None:
            continue
        ck.traces += 1
        ck.case(4, ("t", bytes(r["bytes"])))
        if not v["ok"]:
            for d in (v["blame"] or ["combo"]):
                ck.violation("dev:" + d, "spelling %r read back as %r" % (bytes(r["bytes"]), r["_obs"]),
                             {"data": bytes(r["bytes"]), "how": "stream", "want": r["want"], "observed": repr(r["_obs"])})
    if recs:
        big = max(recs, key=lambda r: len(r["bytes"]))
        ck.sample({"bytes": bytes(big["bytes"]), "variant": "random deep tree (direction B)", "read_back": repr(big["_obs"])[:400]})


# ------------------------------------------------------------------------------------------------ beyond TLC's bounds
def beyond_bounds(ck):
    """two clauses of C01 that the enumerated space cannot hold - "nested to any depth" and integers beyond the 32 bits TLC
    counts with - evaluated directly on the real readers (stream and `n 0 obj` variants, BUFSIZ 5 and 4096)"""
    # (a) nesting depth: arrays, dictionaries and both alternating, 50 .. 20000 levels; the result is walked iteratively
    depths = (50, 1500, 20000) if ck.tier == "quick" else (50, 1500, 20000, 100000)
    for depth in depths:
        for kind in ("arr", "dict", "mixed"):
            opener = {"arr": [b"["], "dict": [b"<</K "], "mixed": [b"[", b"<</K "]}[kind]
            closer = {"arr": [b"]"], "dict": [b">>"], "mixed": [b"]", b">>"]}[kind]
            data = b"".join(opener[i % len(opener)] for i in range(depth)) + b"7" \
                + b"".join(closer[i % len(closer)] for i in reversed(range(depth))) + b" "
            for how, B in (("stream", 4096), ("stream", 5), ("doc", 4096)):
                rp = {"data": data[:200] + b"..." if len(data) > 400 else data, "depth": depth, "kind": kind, "how": how, "bufsiz": B}
                try:
                    if how == "stream":
                        p = stream_parser(B)(data)
                        (_, o) = p.nextobject()
                    else:
                        o = read_doc_raw(data)
                except BaseException as e:      # noqa: BLE001
                    ck.violation("nesting:%s:%s" % (how, type(e).__name__), "%d nested %s levels raise %s in the %s reader"
                                 % (depth, kind, type(e).__name__, how), rp)
                    continue
                n = 0
                while isinstance(o, (list, dict)):
                    if isinstance(o, list):
                        if len(o) != 1:
                            break
                        o = o[0]
                    else:
                        if list(o) != ["K"]:
                            break
                        o = o["K"]
                    n += 1
                if n != depth or o != 7:
                    ck.violation("nesting:%s:value" % how, "%d nested %s levels read back with %d levels around %r" % (depth, kind, n, o), rp)
                ck.case(1, ("nest", depth, kind, how, B))
    # (b) integers and reals that need more than 32 / 53 bits
    big = [2 ** 31, 2 ** 32 + 1, 2 ** 53 + 1, -(2 ** 53) - 1, 2 ** 63, 2 ** 64 + 1, 10 ** 30 + 1, -(10 ** 30) - 1,
           123456789012345678901234567890123456789]
    for v in big:
        for spell in (b"%d", b"+%d", b"000%d"):
            txt = spell % abs(v) if v >= 0 else b"-" + (spell.replace(b"+", b"") % abs(v))
            for ctx in (b"%s ", b"[%s]", b"<</K %s>>", b"[1 %s 2]"):
                data = ctx % txt
                for how, B in (("stream", 4096), ("stream", 5), ("doc", 4096)):
                    try:
                        o = stream_parser(B)(data + b" ").nextobject()[1] if how == "stream" else read_doc_raw(data)
                    except BaseException as e:      # noqa: BLE001
                        o = e
                    got = o
                    if isinstance(o, list):
                        got = o[-2] if len(o) == 3 else o[0] if o else None
                    elif isinstance(o, dict):
                        got = o.get("K")
                    if not (isinstance(got, int) and not isinstance(got, bool) and got == v):
                        ck.violation("big-integer:" + how, "integer %d written %r reads back as %r (%s reader)" % (v, data, got, how),
                                     {"data": data, "how": how, "bufsiz": B})
                    ck.case(1, ("big", v, spell, ctx, how, B))


def stream_parser(B):
    c = _stream_cls.get(B)
    if c is None:
        c = _stream_cls[B] = type("SP%d" % B, (PDFStreamParser,), {"BUFSIZ": B})
    return c


def read_doc_raw(body):
    """the object written as `3 0 obj <body> endobj` in a small file, fetched with getobj (not projected)"""
    out = io.BytesIO()
    out.write(b"%PDF-1.4\n")
    offs = {}
    objs = {1: b"<< /Type /Catalog /Pages 2 0 R >>", 2: b"<< /Type /Pages /Kids [] /Count 0 >>", 3: body}
    for n, b in objs.items():
        offs[n] = out.tell()
        out.write(b"%d 0 obj " % n + b + b" endobj \n")
    x = out.tell()
    out.write(b"xref\n0 4\n0000000000 65535 f \n")
    for n in range(1, 4):
        out.write(b"%010d 00000 n \n" % offs[n])
    out.write(b"trailer\n<< /Size 4 /Root 1 0 R >>\nstartxref\n%d\n%%%%EOF\n" % x)
    doc = PDFDocument(PDFParser(io.BytesIO(out.getvalue())), caching=False)
    return doc.getobj(3)


def run(ck):
    dev = [d for d in active("lex") if d in LEX_DEVS]
    pdev = [d for d in active("obj") if d in PARSE_DEVS]
    ck.extra["deviations_modelled_as_coded"] = dev + pdev
    ck.rule = ("A: every case enumerated by the Init predicates of MC_PSObj.tla (all Spell.tla spellings of the leaf pools "
               "inside an array; representative leaves x contexts x separators; dictionaries; nesting to depth 3; top-level "
               "sequences), each replayed as PDFStreamParser input at BUFSIZ 1/3/4096 or as `n 0 obj` body via "
               "PDFDocument.getobj at three file offsets / two BUFSIZ; distinct by bytes. B: random trees to depth 5 written "
               "by an independent spelling driver, read back at BUFSIZ 1/2/5/4096 and validated by TLC (PSObjTrace.tla).")
    ck.assumptions = ["generation numbers of references are not observable (PDFObjRef keeps only the object number)",
                      "reals are compared as binary64 values of the written decimal",
                      "a dictionary entry whose value is null is equivalent to an absent entry (ISO 32000-1 7.3.7)"]
    direction_a(ck, dev, pdev)
    direction_b(ck, dev, pdev)
    beyond_bounds(ck)
    ck.exhaustive = True


def replay(path):
    doc = json.load(open(path))
    case = unjson(doc["case"])
    data = case["data"]
    if case.get("how", "stream").startswith("doc"):
        r = read_docs([data], 4096, 0)[0]
        print("getobj ->", r)
    else:
        for B in (1, 2, 3, 5, 4096):
            print("BUFSIZ=%d ->" % B, read_stream(data, B))
    print("written value:", case.get("want"))
    print("VIOLATION property=C01 replay=%s" % path)
    return 1
