"""C05 - text model: each glyph gets the position, advance and state PDF assigns (specs/interp/ContentInterp.tla)."""
import json

from ..core import unjson
from ..tlc import MachineryError
from . import interp_common as IC
from ..realise import interp_real as IR

GROUPS = {"quick": ["InitPos(3)", "InitSpace(3)", "InitState(3)", "InitColor(3)", "InitColorRes(2)", "InitPass(2)", "InitBad", "InitBad2", "InitZero", "InitZero2", "InitMixed"],
          "thorough": ["InitPos(4)", "InitSpace(4)", "InitState(4)", "InitColor(4)", "InitColorRes(3)", "InitPass(3)", "InitBad", "InitBad2", "InitZero", "InitZero2", "InitMixed"]}


def run(ck):
    IC.check_forms_transcription()
    cover = {}
    for init in GROUPS[ck.tier]:
        IC.run_group(ck, "C05", init, {"glyphs"}, cover)
    if cover:
        missing = [a for a in ["q", "Q", "cm", "BT", "ET", "Tc", "Tw", "Tz", "TL", "Tf", "Ts", "Td", "TD", "Tm", "T*", "Tj", "TJ", "'", '"', "Do", "rg"]
                   if not cover.get(a)]
        if missing:
            raise MachineryError("vacuous: interpreter action(s) never taken: %s" % missing)
    # split invariance on a sample of programs (real vs real)
    N = lambda n: {"t": "num", "n": n, "s": [], "a": []}  # noqa: E731
    S = lambda s: {"t": "str", "n": 0, "s": list(s), "a": []}  # noqa: E731
    Nm = lambda s: {"t": "name", "n": 0, "s": [IR.NAMES.index(s) + 1], "a": []}  # noqa: E731
    Op = lambda o: {"t": "op", "n": 0, "s": [IR.OPS.index(o) + 1], "a": []}  # noqa: E731
    progs = []
    base = [Op("BT"), Nm("F1"), N(10), Op("Tf"), N(3), N(700), Op("Td"), S(b"A B"), Op("Tj"), N(1), Op("Tc"),
            {"t": "arr", "n": 0, "s": [], "a": [S(b"A"), N(-100), S(b"B")]}, Op("TJ"), Op("q"), N(2), N(0), N(0), N(2), N(1), N(1), Op("cm"),
            Nm("Fm1"), Op("Do"), Op("Q"), S(b"B"), Op("'"), Op("ET"), N(0), N(0), N(3), N(3), Op("re"), Op("B")]
    for _ in range(60 if ck.tier == "quick" else 300):
        progs.append(base)
    IC.split_invariance(ck, "C05", progs)
    IC.direction_b(ck, "C05")
    ck.rule = ("every program of up to L operator instances per group (positioning, spacing/scaling, graphics state + forms) and "
               "every operator with missing or ill-typed operands, enumerated by TLC and run as one page each; the glyph list "
               "(matrix, advance, bbox, font, size, fill colour) must equal the one the model assigns; non-trivial = shows at "
               "least one glyph; distinct by content-stream bytes")
    ck.assumptions = ["operands are integers chosen so that every product is exact in units of 1/100000 pt; compared with relative tolerance 1e-9",
                      "fonts: one simple font with a Widths table and one two-byte Identity-H font with DW",
                      "a colour that was never set is reported as None (the model's `unset`)"]
    ck.exhaustive = True


def replay(path):
    doc = json.load(open(path))
    c = unjson(doc["case"])
    print("content stream:", c["program"])
    print("VIOLATION property=%s replay=%s" % (doc["property"], path))
    return 1
