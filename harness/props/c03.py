"""C03 - stream payloads and filter chains decode to exactly the original bytes.

Specifications (specs/stream): StreamDelim, FilterChain, LZW (three scaled instances), RunLength, AsciiFrame,
Predictor - each an implementation-shaped machine + the writer relation of the standard + the property as
invariants, checked exhaustively by TLC.

A. every terminal state TLC enumerates is realised (reference encoders, several concrete representatives per
   symbol) and run on the real decoders directly and inside generated PDFs through
   PDFDocument.getobj(n).get_data(); the real result is compared with the writer's payload (the property) and,
   where it differs, with the as-coded model (named deviations -> known findings).
B. traces recorded from the real decoders at the real constants (per LZW code, per RunLength run, per
   predictor row, per PDFStream.decode call sequence; payloads up to 64 KiB, streams of the repository samples
   re-encoded with every codec) are validated by TLC against LZWTrace / RunLengthTrace / PredictorTrace /
   FilterChainTrace; per trace spec one corrupted trace must be rejected (vacuity guard).
"""
from __future__ import annotations

import glob
import io
import json
import os
import random
import zlib
from concurrent.futures import ProcessPoolExecutor, ThreadPoolExecutor

from ..core import unjson
from ..deviations import active, tla_set
from ..tlc import MachineryError, SPECS, require_coverage, run_tlc, write_cfg
from ..realise import codecs as cd
from ..realise import streamreal as sr
from ..realise.pdfwriter import Name
from ..observe import streamobs as so

S = os.path.join(SPECS, "stream")
PID = "C03"
SUPPORTED_BITS = {"png": (1, 8), "tiff": (8,)}     # what the code documents as supported (see notes/C03.md)
DEV_PRIORITY = ("PngRowFloor", "PngBppFloor", "PngAboveColumns")
MAX_REPORTS_PER_KEY = 3


# =============================================================================================== reporting
class Reporter:
    def __init__(self, ck):
        self.ck = ck
        self.n = {}

    def __call__(self, key, what, replay):
        ck = self.ck
        if ck.is_known(key):
            ck.violation(key, what, None)
            return
        self.n[key] = self.n.get(key, 0) + 1
        if self.n[key] <= MAX_REPORTS_PER_KEY:
            ck.violation(key, what, replay)
        elif hasattr(ck, "uncounted"):
            ck.uncounted[key] = ck.uncounted.get(key, 0) + 1      # worker process: merged by the parent
        else:
            ck.violations.append((key, what, None))


def excname(e):
    return type(e).__name__ if isinstance(e, BaseException) else e


# =============================================================================================== TLC jobs
class Job:
    def __init__(self, label, module, constants, invariants=(), properties=(), emit=False, coverage=False,
                 expect_violation=False, workers=3):
        self.label, self.module, self.constants = label, module, constants
        self.invariants, self.properties = list(invariants), list(properties)
        self.emit, self.coverage, self.expect_violation, self.workers = emit, coverage, expect_violation, workers
        self.res = None
        self.emit_path = None


PHASES = {}


def _t(msg, t0=[None]):
    import time
    now = time.time()
    if t0[0] is None:
        t0[0] = now
    PHASES[msg] = round(now - t0[0], 1)
    if os.environ.get("C03_TIMING"):
        print("[%6.1fs] %s" % (now - t0[0], msg), flush=True)


def run_job(ck, j):
    cfg = write_cfg(os.path.join(ck.tmp, "c03_%s.cfg" % j.label), constants=j.constants, invariants=j.invariants,
                    properties=j.properties, constraints=["EmitTerminal"] if j.emit else [])
    if j.emit:
        j.emit_path = os.path.join(ck.tmp, "c03_%s.ndjson" % j.label)
    j.res = run_tlc(os.path.join(S, j.module + ".tla"), cfg, emit=j.emit_path, coverage=j.coverage,
                    workers=j.workers, timeout=3000, heap="6g")
    _t("tlc done: %s (%.1fs, %d states)" % (j.label, j.res.wall, j.res.distinct))
    return j


def lines(j):
    n = 0
    with open(j.emit_path) as f:
        for ln in f:
            n += 1
            yield json.loads(ln)
    if n != j.emitted or n == 0:
        raise MachineryError("%s: TLC emitted %d terminal states, %d were read back" % (j.label, j.emitted, n))


def spec_must_hold(ck, rep, j):
    """the intended design must satisfy the invariants; a violation here is TLC refuting the specification"""
    ck.add_tlc(j.res, j.label)
    if not j.res.ok:
        st = j.res.error_trace[-1][1] if j.res.error_trace else {}
        rep("model:%s:%s" % (j.module, j.res.violated),
            "TLC: %s violated on %s (%s)" % (j.res.violated, j.module, json.dumps(st)[:300]),
            {"part": "model", "tlc": j.res.error_text[:4000]})
        return False
    return True


# =============================================================================================== A: StreamDelim
def replay_delim(ck, rep, j, variants):
    from pdfminer.pdfdocument import PDFDocument
    from pdfminer.pdfparser import PDFParser
    from pdfminer.pdftypes import PDFStream
    from pdfminer.psparser import PSBaseParser, PSEOF, PSKeyword
    batches = {}
    n = 0
    drift = 0

    def flush(b):
        items = list(b.items)
        expected = {o: e for (o, e, _t) in items}

        def on_result(tag, exp, got, exc, objid, pdf):
            if got != exp:
                kind = "exc:" + excname(exc) if exc is not None else "wrong-bytes"
                rep("delim:" + kind, "stream payload %r came back as %r (%s) [%s]" % (exp[:40], (got or b"")[:40], kind, tag),
                    {"part": "pdf", "pdf": pdf, "objid": objid, "expected": exp, "bufsiz": b.bufsiz})
        b.run(on_result)
        pdf, info = b.last
        offs = info["offsets"][0]
        old = PSBaseParser.BUFSIZ
        PSBaseParser.BUFSIZ = b.bufsiz
        try:
            p = PDFParser(io.BytesIO(pdf))
            PDFDocument(p)
            for (objid, exp, tag) in items:
                p.seek(offs[objid])
                got = []
                try:
                    while len(got) < 12:
                        got.append(p.nextobject()[1])
                        if isinstance(got[-1], bytes) and got[-1].startswith(b"NEXT"):
                            break
                except PSEOF:
                    pass
                except Exception as e:   # noqa: BLE001
                    rep("delim:resume:exc:" + excname(e), "parsing on after the stream raised %r [%s]" % (e, tag),
                        {"part": "resume", "pdf": pdf, "offset": offs[objid], "objid": objid, "expected": exp, "bufsiz": b.bufsiz})
                    continue
                i = next((k for k, v in enumerate(got) if isinstance(v, PDFStream)), None)
                tail = got[i + 1:] if i is not None else []
                ok = (i is not None and got[i].get_data() == exp and len(tail) == 5
                      and isinstance(tail[0], PSKeyword) and tail[0].name == b"endstream"
                      and tail[1] == objid + 1 and tail[2] == 0 and isinstance(tail[3], PSKeyword)
                      and tail[4] == b"NEXT%d" % objid)
                if not ok:
                    rep("delim:resume", "after the stream the parser did not read `endstream` and the next object: %r [%s]"
                        % (got, tag), {"part": "resume", "pdf": pdf, "offset": offs[objid], "objid": objid,
                                       "expected": exp, "bufsiz": b.bufsiz})
        finally:
            PSBaseParser.BUFSIZ = old

    for r in lines(j):
        n += 1
        if r["st"] != ["stream"] or r["resume"] < 0:
            drift += 1
        for v in variants:
            payload = sr.delim_payload(r["p"], n + v)
            B = r["b"]
            b = batches.get(B)
            if b is None:
                b = batches[B] = sr.PdfBatch(size=150, bufsiz=B)
            tag = "p=%s ea=%s eb=%s B=%d len=%s" % ("".join(r["p"]) or "-", r["ea"], r["eb"] or "-", B, r["lk"])
            b.add({}, payload, payload, tag, ea=sr.EOLS[r["ea"]], eb=sr.EOLS[r["eb"]],
                  indirect_length=(r["lk"] == "indirect"), marker=True)
            nontriv = (set(r["p"]) - {"x"}) or r["lk"] == "indirect"
            ck.case(2, ("delim", tuple(r["p"]), r["ea"], r["eb"], B, r["lk"]) if nontriv else None)
            if b.full():
                flush(b)
        if n % 4000 == 1:
            ck.sample({"part": "StreamDelim", "payload_symbols": r["p"], "eol_after_keyword": r["ea"],
                       "eol_before_endstream": r["eb"], "bufsiz": r["b"], "length": r["lk"],
                       "realised_payload": sr.delim_payload(r["p"], n), "model_resume": r["resume"]})
    for b in batches.values():
        if b.items:
            flush(b)
    ck.replayed += n
    return n, drift


# =============================================================================================== A+: wrong /Length, fallback
def replay_delim_ext(ck, rep, j, variants):
    """extended coverage: the real parser on every enumerated (payload, EOLs, /Length kind, delta, fallback) case;
    compared with what StreamDelim.tla states is delivered (transcribed in streamreal.delivered, applied to the
    real file); differences from the ideal `the payload` are counted per category, nothing is a C03 violation"""
    from pdfminer.pdfdocument import PDFDocument
    from pdfminer.pdfparser import PDFParser
    from pdfminer.pdftypes import PDFStream
    from pdfminer.psparser import PSBaseParser, PSKeyword
    from ..realise.pdfwriter import Raw, Ref, Revision, build
    groups = {}
    stats = {"cases": 0, "delivered_as_stated": 0, "differs_from_statement": 0, "resume_as_stated": 0,
             "resume_differs_from_statement": 0, "could_not_open": 0, "categories": {}}
    examples = []

    def cat(name):
        stats["categories"][name] = stats["categories"].get(name, 0) + 1

    def flush(key):
        B, fb = key
        items = groups.pop(key)
        objs = {1: {"Type": Name("Catalog"), "Pages": Ref(2)}, 2: {"Type": Name("Pages"), "Kids": [], "Count": 0}}
        nxt = 3
        late = {}
        meta = []
        for (r, payload) in items:
            lk, dl = r["lk"], r["dl"]
            if lk == "missing":
                ent = b""
            elif lk == "indirect-missing":
                ent = b"/Length 99999 0 R"
            elif lk == "indirect":
                late[nxt] = len(payload) + dl
                ent = b"/Length %d 0 R" % (90000 + nxt)
            else:
                ent = b"/Length %d" % (len(payload) + dl)
            body = b"<<" + ent + b">>\nstream" + sr.EOLS[r["ea"]] + payload + sr.EOLS[r["eb"]] + b"endstream"
            objs[nxt] = Raw(body)
            meta.append((nxt, r, payload))
            objs[nxt + 1] = b"NEXT%d" % nxt
            nxt += 2
        remap = {}
        for k, v in late.items():
            remap[90000 + k] = nxt
            objs[nxt] = v
            nxt += 1
        # (the model's file goes on with a later `endstream`: an over-long scan must find one here too)
        objs[nxt] = Raw(b"<</Length 2>>\nstream\nz\nendstream")
        for k in list(objs):
            if isinstance(objs[k], Raw):
                b = bytes(objs[k])
                for old, new in remap.items():
                    b = b.replace(b"/Length %d 0 R" % old, b"/Length %d 0 R" % new)
                objs[k] = Raw(b)
        pdf, info = build([Revision(objs, root=Ref(1))], startxref_override=7 if fb else None)
        offs = info["offsets"][0]
        old = PSBaseParser.BUFSIZ
        PSBaseParser.BUFSIZ = B
        # observation: where the parser stands when the `stream` branch of do_keyword returns
        orig_kw = PDFParser.do_keyword
        left_at = {}

        def do_keyword(self, pos, token):
            orig_kw(self, pos, token)
            if token is self.KEYWORD_STREAM:
                left_at["pos"] = self.bufpos + self.charpos

        PDFParser.do_keyword = do_keyword
        try:
            try:
                p = PDFParser(io.BytesIO(pdf))
                doc = PDFDocument(p)
            except Exception as e:      # noqa: BLE001 - the damaged file as a whole: C13's subject
                stats["could_not_open"] += len(meta)
                if len(examples) < 3:
                    examples.append("document with B=%s fallback=%s could not be opened: %r" % (B, fb, e))
                return
            if bool(getattr(p, "fallback", False)) != fb:
                raise MachineryError("realised document is %sin fallback mode" % ("not " if fb else ""))
            for (objid, r, payload) in meta:
                stats["cases"] += 1
                start = pdf.index(b"stream", offs[objid]) + 6 + len(sr.EOLS[r["ea"]])
                L = 0 if (fb or r["lk"] in ("missing", "indirect-missing")) else len(payload) + r["dl"]
                want, want_resume = sr.delivered(pdf, start, L, fb)
                left_at.clear()
                try:
                    st = doc.getobj(objid)
                    got = st.get_data() if isinstance(st, PDFStream) else None
                except Exception as e:   # noqa: BLE001
                    got = None
                    if len(examples) < 3:
                        examples.append("getobj raised %r for %s" % (e, r))
                if got == want:
                    stats["delivered_as_stated"] += 1
                else:
                    stats["differs_from_statement"] += 1
                    if len(examples) < 3:
                        examples.append("delivered %r, stated %r for %s" % (got, want, {k: r[k] for k in ("p", "ea", "eb", "lk", "dl", "fb")}))
                # where the parser goes on
                okr = left_at.get("pos") == want_resume
                stats["resume_as_stated" if okr else "resume_differs_from_statement"] += 1
                # against the ideal: the payload, and the parser at the stream's own endstream
                ideal_resume = start + len(payload) + len(sr.EOLS[r["eb"]])
                if got == payload and want_resume == ideal_resume:
                    cat("payload delivered exactly")
                elif got == payload:
                    cat("payload exact, parser resumes elsewhere")
                elif fb and got == payload + sr.EOLS[r["eb"]]:
                    cat("fallback: end-of-line before endstream is part of the data")
                elif fb:
                    cat("fallback: payload cut at an embedded `endstream`")
                elif r["lk"] in ("missing", "indirect-missing"):
                    cat("no usable /Length: empty data")
                elif r["dl"] < 0:
                    cat("/Length too short: data truncated")
                elif r["dl"] > 0:
                    cat("/Length too long: data runs into endstream/endobj")
                else:
                    cat("other")
                nontriv = r["dl"] != 0 or fb or r["lk"] != "direct"
                ck.case(2, ("delim-ext", tuple(r["p"]), r["ea"], r["eb"], B, r["lk"], r["dl"], fb) if nontriv else None)
        finally:
            PSBaseParser.BUFSIZ = old
            PDFParser.do_keyword = orig_kw

    if not hasattr(PDFParser, "do_keyword") or not hasattr(PDFParser, "KEYWORD_STREAM"):
        raise MachineryError("PDFParser.do_keyword / KEYWORD_STREAM not found")
    n = 0
    for r in lines(j):
        n += 1
        for v in variants:
            payload = sr.delim_payload_safe(r["p"], n + v)
            key = (r["b"], r["fb"])
            groups.setdefault(key, []).append((r, payload))
            if len(groups[key]) >= 120:
                flush(key)
        if n % 5000 == 1:
            ck.sample({"part": "StreamDelim (extended)", "payload_symbols": r["p"], "length_kind": r["lk"], "delta": r["dl"],
                       "fallback": r["fb"], "model_delivers": bytes(r["data"]), "model_resume": r["resume"]})
    for key in list(groups):
        flush(key)
    ck.replayed += n
    stats["examples"] = examples
    return n, stats


# =============================================================================================== A+: Flate recovery
def replay_flate(ck, rep, j, rng):
    """extended coverage: decompress_corrupted on every enumerated stored-block stream, and on truncated /
    bit-flipped deflate streams at real scale"""
    import logging
    from pdfminer import pdftypes
    from pdfminer.psparser import LIT
    if not hasattr(pdftypes, "decompress_corrupted"):
        raise MachineryError("pdfminer.pdftypes.decompress_corrupted not found")
    stats = {"cases": 0, "as_stated": 0, "differs_from_statement": 0, "warning_rule_differs": 0, "real_scale_cases": 0,
             "real_scale_differs": 0}
    examples = []
    warns = []

    class H(logging.Handler):
        def emit(self, record):
            if "Data-loss" in record.getMessage():
                warns.append(1)

    hd = H()
    lg = logging.getLogger(pdftypes.__name__)
    lg.addHandler(hd)
    prev_disable = logging.root.manager.disable
    logging.disable(logging.NOTSET)
    old_level = lg.level
    lg.setLevel(logging.WARNING)
    try:
        n = 0
        for r in lines(j):
            n += 1
            for variant in (n, n + 1):
                data, produced = sr.flate_stored(r["b"], tuple(r["f"]), variant)
                # the abstract inflater must describe zlib itself on this stream (else the model is beside the point)
                outs, k = sr.zlib_bytewise(data)
                vals = {(b, i): v for (b, i, v) in produced}
                want = bytes(vals[(e[1], e[2])] for e in r["r"])
                if k != r["k"] and not (r["k"] >= len(data) and k == -1):
                    raise MachineryError("zlib fails at byte %s of %s, the abstract inflater says %s (%r)" % (k, data.hex(), r["k"], r["f"]))
                if b"".join(outs) != want or len(data) != r["n"]:
                    raise MachineryError("zlib put out %r on %s, the abstract inflater says %r" % (b"".join(outs), data.hex(), want))
                stats["cases"] += 1
                del warns[:]
                try:
                    got = pdftypes.PDFStream({"Filter": LIT("FlateDecode")}, data).get_data()
                except Exception as e:   # noqa: BLE001
                    got = repr(e)
                if got == want:
                    stats["as_stated"] += 1
                else:
                    stats["differs_from_statement"] += 1
                    if len(examples) < 3:
                        examples.append("stream %s (%r): delivered %r, inflate had produced %r" % (data.hex(), r["f"], got, want))
                if bool(warns) != bool(r["w"]):
                    stats["warning_rule_differs"] += 1
                ck.case(1, ("flate", tuple(r["b"]), tuple(r["f"]), variant % 6) if r["f"][0] != "none" else None)
            if n % 100 == 1:
                ck.sample({"part": "Flate (extended)", "blocks": r["b"], "fault": r["f"], "data": data, "inflate_fails_at": r["k"],
                           "delivered": got, "stated": want, "warned": bool(warns)})
        ck.replayed += n
        # real scale: deflate-compressed payloads, truncated and bit-flipped
        payloads = [b"BT /F1 12 Tf (Hello) Tj ET\n" * 40, bytes(rng.randrange(256) for _ in range(3000)),
                    bytes(rng.choice(b"ab \n") for _ in range(5000)), b""]
        for pl in payloads:
            z = zlib.compress(pl, 6)
            cuts = sorted(set([0, 1, 2, 3, len(z) - 5, len(z) - 4, len(z) - 3, len(z) - 2, len(z) - 1] +
                              [rng.randrange(len(z)) for _ in range(30)]))
            cases = [z[:c] for c in cuts if 0 <= c < len(z)]
            for c in cuts:
                if 0 <= c < len(z):
                    t = bytearray(z)
                    t[c] ^= 1 << rng.randrange(8)
                    cases.append(bytes(t))
            for data in cases:
                want, _k = sr.inflate_longest_prefix(data)
                try:
                    got = pdftypes.PDFStream({"Filter": LIT("Fl")}, data).get_data()
                except Exception as e:   # noqa: BLE001
                    got = repr(e)
                stats["real_scale_cases"] += 1
                ck.case(1, ("flate-scale", data[:64], len(data)))
                if got != want:
                    stats["real_scale_differs"] += 1
                    if len(examples) < 3:
                        examples.append("%d-byte damaged deflate stream: delivered %d bytes, inflate had produced %d"
                                        % (len(data), len(got) if isinstance(got, bytes) else -1, len(want)))
    finally:
        lg.removeHandler(hd)
        lg.setLevel(old_level)
        logging.disable(prev_disable)
    stats["examples"] = examples
    return n, stats


# =============================================================================================== A: FilterChain
class FakeDoc:
    """resolves PDFObjRef for PDFStream objects built directly (no file)"""

    def __init__(self):
        self.objs = {}

    def getobj(self, objid):
        return self.objs[objid]


def inject_geometry(a, parms, indirect_values):
    def unref(v):
        return v["v"] if v["t"] == "ref" else v

    def put(d, g):
        if g is None or d["t"] != "dict":
            return
        if not isinstance(d["v"], dict):
            d["v"] = {}
        for k, x in g.items():
            iv = {"t": "int", "v": x}
            d["v"][k] = {"t": "ref", "v": iv} if (indirect_values and k == "Columns") else iv

    top = a.get("DP") or a.get("DecodeParms")
    if not top:
        return
    t = unref(top)
    if t["t"] == "arr":
        for k, el in enumerate(t["v"]):
            put(unref(el), parms[k])
    else:
        put(t, parms[0])


def replay_chain(ck, rep, j, stride_pdf, traces, trace_stride,
                 want_calls=("Fl", "LZW", "LZW0", "A85", "AHx", "RL", "CCF", "png", "tiff")):
    from pdfminer.pdftypes import PDFObjRef, PDFStream
    batch = sr.PdfBatch(size=300)
    n = 0
    n_long = 0
    drift = 0
    seen_calls = set()
    ccf_unresolved = [0]

    def judge(tag, exp, got, exc, how, replay):
        if got == exp:
            return True
        if "<ccf-indirect-values>" in tag:
            # CCITTFaxDecode is not one of C03's five filters: ccittfaxdecode() reading /K and /Columns without resolving
            # indirect values is reported as extended coverage (C19's subject), not as a C03 violation
            ccf_unresolved[0] += 1
            return False
        kind = "exc:" + excname(exc) if exc is not None else "wrong-bytes"
        rep("chain:" + kind, "filter chain %s (%s) decoded to %r instead of %r" % (tag, how, (got or b"")[:30], exp[:30]), replay)
        return False

    def on_result(tag, exp, got, exc, objid, pdf, calls=None, shape=None):
        judge(tag[0], exp, got, exc, "through a PDF", {"part": "pdf", "pdf": pdf, "objid": objid, "expected": exp})
        if got == exp and calls is not None and tag[2]:
            traces.append({"a": shape, "c": calls, "origin": "generated chain " + tag[0]})
            if calls != tag[1]:
                nonlocal drift
                drift += 1

    for r in lines(j):
        n += 1
        layers = [tuple(x) for x in r["l"]]
        payload = sr.CHAIN_PAYLOADS[n % len(sr.CHAIN_PAYLOADS)]
        # an LZW stage only tells /EarlyChange 0 from 1 beyond 253 codes: chains in which a value could reach the
        # wrong stage (two LZW stages, one with /EarlyChange 0) get the long payload for every second dictionary shape,
        # other chains with an /EarlyChange 0 stage for every eighth
        nlzw = sum(1 for l in layers if l[0] == "LZW")
        ec0 = any(l[0] == "LZW" and l[2] == 0 for l in layers)
        if ec0 and n % (2 if nlzw >= 2 else 8) == 0:
            payload = sr.LONG_PAYLOAD
            n_long += 1
        raw, parms = sr.chain_encode(layers, payload, n)
        a = r["a"] if isinstance(r["a"], dict) else {}
        indirect_values = '{"t": "ref", "v": {"t": "int"' in json.dumps(a)
        inject_geometry(a, parms, indirect_values)
        tag = "/".join("%s%s%s" % (f, "+P%d" % p if p else "", "+EC%d" % ec if ec >= 0 else "") for f, p, ec in layers) or "(none)"
        if indirect_values and any(l[0] == "CCF" for l in layers):
            tag += " <ccf-indirect-values>"
        if r["e"] != "none" or r["d"]:
            drift += 1
        # direct: a PDFStream object as the parser would build it
        doc = FakeDoc()

        def mkref(v, doc=doc):
            k = len(doc.objs) + 1
            doc.objs[k] = v
            return PDFObjRef(doc, k)

        attrs = {k: sr.to_real(v, mkref) for k, v in a.items()}
        st = PDFStream(attrs, raw)
        got, exc, calls = None, None, None
        with so.decode_calls() as log:
            try:
                got = st.get_data()
                got = sr.second_answer(st, got)
            except Exception as e:      # noqa: BLE001
                exc = e
            calls = list(log)
        ok = judge(tag, payload, got, exc, "PDFStream built directly",
                   {"part": "chain", "attrs": a, "raw": raw, "expected": payload})
        if ok and calls != r["c"]:
            drift += 1
            if drift <= 3:
                ck.note("FilterChain drift: %s decoded correctly with calls %r, the model makes %r" % (tag, calls, r["c"]))
        seen_calls.update(calls or ())
        nontriv = len(layers) >= 2 or any(p or ec >= 0 for _f, p, ec in layers)
        ck.case(1, ("chain", json.dumps(r["a"], sort_keys=True)) if nontriv else None)
        # through a PDF
        if n % stride_pdf == 0:
            pa = {k: sr.to_pdf(v, batch.alloc) for k, v in a.items()}
            batch.add(pa, raw, payload, (tag, r["c"], n % trace_stride == 0))
            ck.case(1)
            if batch.full():
                batch.run(on_result, with_calls=True)
        if n % 3000 == 1:
            ck.sample({"part": "FilterChain", "layers": r["l"], "stream_dictionary": r["a"], "payload": payload,
                       "raw_stream_bytes": raw[:80], "decoded": got, "decoder_calls": calls})
    batch.run(on_result, with_calls=True)
    need = set(want_calls)
    if not need <= seen_calls:
        raise MachineryError("FilterChain replay never reached decoder(s) %s" % sorted(need - seen_calls))
    if "LZW0" in need and not n_long:
        raise MachineryError("FilterChain replay used no payload long enough to tell /EarlyChange 0 from 1")
    ck.extra["chain_cases_with_long_payload_" + j.label] = n_long
    if ccf_unresolved[0]:
        ck.extra["ccitt_indirect_parameter_values_not_resolved_" + j.label] = ccf_unresolved[0]
        ck.note("extended coverage (CCITTFaxDecode inside chains; not one of C03's filters): %d cases in which /K and /Columns "
                "are indirect objects fail - ccittfaxdecode() reads them without resolving (PDFValueError)" % ccf_unresolved[0])
    ck.replayed += n
    return n, drift


# =============================================================================================== A: StreamObject
OBJECT_FILTERS = ((("Fl", 0, -1),), (("LZW", 0, -1),), (("LZW", 0, 0),), (("AHx", 0, -1),), (("A85", 0, -1),), (("RL", 0, -1),),
                  (("CCF", 0, -1),), (("Fl", 15, -1),), (("LZW", 2, -1),), (("A85", 0, -1), ("Fl", 12, -1)))


def replay_object(ck, rep, j):
    """every call sequence TLC enumerates on StreamObject.tla, on real PDFStream objects (built directly and fetched
    with PDFDocument.getobj), unfiltered and through every filter, for an empty and non-empty payloads"""
    from pdfminer.pdfdocument import PDFDocument
    from pdfminer.pdfparser import PDFParser
    from pdfminer.pdftypes import PDFStream
    from pdfminer.psparser import LIT
    n = 0
    drift = 0
    cases = []
    for r in lines(j):
        n += 1
        pls = (b"",) if not r["p"] else (b"\x07", sr.CHAIN_PAYLOADS[n % 5])
        for payload in pls:
            for layers in (OBJECT_FILTERS if r["f"] else ((),)):
                raw, parms = sr.chain_encode(list(layers), payload, n)
                cases.append((r, payload, layers, raw, parms))
        if n % 60 == 1:
            ck.sample({"part": "StreamObject", "payload": r["p"], "filtered": r["f"], "calls": r["plan"], "model_answers": r["a"]})

    def attrs_for(layers, parms, pdf):
        if not layers:
            return {}
        out = {"Filter": [(Name if pdf else LIT)(FULL[l[0]]) for l in layers]}
        dp = []
        for l, g in zip(layers, parms):
            d = dict(g or {})
            if l[1]:
                d["Predictor"] = l[1]
            if l[2] >= 0:
                d["EarlyChange"] = l[2]
            if l[0] == "CCF":
                d["K"] = -1
            dp.append(d or None)
        if any(dp):
            out["DecodeParms"] = dp
        return out

    def run_plan(st, r, payload, raw, how, replay):
        nonlocal drift
        for k, call in enumerate(r["plan"]):
            try:
                ans, exc = getattr(st, call)(), None
            except AssertionError as e:
                ans, exc = None, e
            except Exception as e:       # noqa: BLE001
                ans, exc = None, e
            model = r["a"][k] if k < len(r["a"]) else None
            if call == "get_data":
                if exc is not None or ans != payload:
                    what = "call %d of %r on a stream with payload %r (%s, %s): %s instead of the payload" % (
                        k + 1, r["plan"], payload[:20], how, "/".join(l[0] for l in replay["layers"]) or "unfiltered",
                        repr(exc) if exc is not None else repr(ans[:20] if ans else ans))
                    rep("object:get_data:" + ("exc:" + excname(exc) if exc is not None else "wrong-bytes"), what, replay)
                    return
            elif call == "get_rawdata":
                want = raw if (model and model["set"]) else None
                if exc is not None or ans != want:
                    drift += 1
            else:
                if (exc is not None) != (r["e"] != "none" and k == len(r["a"]) - 1):
                    drift += 1
                if exc is not None:
                    return
        ck.case(1, ("object", tuple(r["plan"]), payload, how, json.dumps(replay["layers"])) if len(r["plan"]) > 1 else None)

    batch = sr.PdfBatch(size=400)
    pending = []
    for (r, payload, layers, raw, parms) in cases:
        rp = {"part": "object", "layers": [list(l) for l in layers], "raw": raw, "expected": payload, "plan": r["plan"],
              "parms": parms}
        run_plan(PDFStream(attrs_for(layers, parms, False), raw), r, payload, raw, "PDFStream built directly", rp)
        objid = batch.add(attrs_for(layers, parms, True), raw, payload, None)
        pending.append((objid, r, payload, raw, rp))
        if batch.full() or (r, payload, layers, raw, parms) is cases[-1]:
            pdf, _info = batch.build()
            doc = PDFDocument(PDFParser(io.BytesIO(pdf)))
            for (oid, r2, pl2, raw2, rp2) in pending:
                class Via:
                    """every call fetches the object again: PDFDocument hands out the same cached PDFStream"""
                    def __getattr__(self, name, oid=oid):
                        return getattr(doc.getobj(oid), name)
                run_plan(Via(), r2, pl2, raw2, "PDFDocument.getobj", dict(rp2, part="pdf", pdf=pdf, objid=oid))
            pending = []
            batch._reset()
    ck.replayed += n
    return n, drift


FULL = {"Fl": "FlateDecode", "LZW": "LZWDecode", "AHx": "ASCIIHexDecode", "A85": "ASCII85Decode", "RL": "RunLengthDecode",
        "CCF": "CCITTFaxDecode"}


# =============================================================================================== A: LZW
TRAIL_REAL = {0: b"\x00", 3: b"\xff", 1: b"\n", 2: b"\r"}


def replay_lzw(ck, rep, j, alpha, minbits, maps, batch, want, dev):
    from pdfminer.lzw import lzwdecode
    n = 0
    drift = 0
    seen = set()

    def judge(payload, got, exc, trail, what, replay):
        if got == payload:
            return True
        if trail and "LzwEodContinues" in dev:
            rep("dev:LzwEodContinues", "LZW data followed by %r after EOD decoded to %r instead of %r"
                % (trail, (got or b"")[-12:], payload[-12:]), None)
            return False
        kind = "exc:" + excname(exc) if exc is not None else "wrong-bytes"
        rep("lzw:" + kind, what % ((got or b"")[:30], payload[:30]), replay)
        return False

    def on_result(tag, exp, got, exc, objid, pdf):
        judge(exp, got, exc, tag[1], "LZW stream in a PDF decoded to %r instead of %r [" + tag[0] + "]",
              {"part": "pdf", "pdf": pdf, "objid": objid, "expected": exp})

    for r in lines(j):
        n += 1
        h = r["h"]
        # the writer's codes (cs); the decoder's history h describes them one by one unless a deviation of the
        # as-coded model made it lose track (trig), and it may go on after EOD
        cs = r["cs"]
        hw = h[:len(cs)] if not r["trig"] else []
        if any(e[1] > minbits for e in hw):
            seen.add("width")
        if sum(1 for e in hw if e[2] == "clear") > 1 + (1 if r["xc"] else 0):
            seen.add("full")
        if any(e[2] == "kwkwk" for e in hw):
            seen.add("kwkwk")
        if r["ec"] == 0:
            seen.add("ec0")
        if r["tr"]:
            seen.add("trail")
        if (r["o"] != r["x"] or r["e"] != "none") and not r["trig"]:
            drift += 1
        for mi in maps(n):
            m = sr.LZW_MAPS[mi]
            payload = bytes(m[s] for s in r["x"])
            codes = sr.lzw_real_codes([(c[0], c[1], "", 0) for c in cs], alpha, m)
            trail = b"".join(TRAIL_REAL[b] for b in r["tr"])
            enc = cd.lzw_pack(codes, r["ec"]) + trail
            got, exc, ev = so.lzw_events(enc, r["ec"], direct=True)
            ok = judge(payload, got, Exception(exc) if exc else None, trail,
                       "LZW codes " + repr(codes[:24]) + " decoded to %r instead of %r", {"part": "lzw", "enc": enc, "expected": payload})
            if ok and hw and not trail and ([e["o"] for e in ev] != [e[3] for e in hw] or [e["c"] for e in ev] != codes):
                drift += 1
                if drift <= 3:
                    ck.note("LZW drift: per-code outputs %r, model %r" % ([e["o"] for e in ev][:20], [e[3] for e in hw][:20]))
            enc2 = cd.lzw_encode(payload, extra_clears=(r["xc"],) if r["xc"] else (), eod=r["eod"], ec=r["ec"])
            try:
                got2, exc2 = lzwdecode(enc2), None
            except Exception as e:      # noqa: BLE001
                got2, exc2 = None, e
            judge(payload, got2, exc2, b"", "greedy LZW encoding decoded to %r instead of %r", {"part": "lzw", "enc": enc2, "expected": payload})
            attrs = {"Filter": Name(("LZWDecode", "LZW")[n % 2])}
            if r["ec"] == 0:
                attrs["DecodeParms"] = {"EarlyChange": batch.alloc(0) if n % 4 < 2 else 0}
            batch.add(attrs, enc, payload, ("codes=%r" % (codes[:16],), trail))
            ck.case(3, ("lzw", alpha, minbits, tuple(r["x"]), r["xc"], r["eod"], r["ec"], r["df"], tuple(r["tr"]), mi)
                    if len(cs) > 3 else None)
            if batch.full():
                batch.run(on_result)
        if n % 3000 == 1:
            ck.sample({"part": "LZW", "model_input": r["x"], "early_change": r["ec"], "deferred_clear": r["df"],
                       "bytes_after_eod": r["tr"], "model_codes": [[e[0], e[1], e[2]] for e in hw][:24],
                       "realised_payload": payload, "real_code_sequence": codes[:24], "decoded": got})
    batch.run(on_result)
    miss = set(want) - seen
    if miss:
        raise MachineryError("LZW instance %s never showed: %s" % (j.label, sorted(miss)))
    ck.replayed += n
    return n, drift


# =============================================================================================== A: RunLength
def replay_rl(ck, rep, j, H, batch):
    from pdfminer.runlength import rldecode
    n = 0
    drift = 0

    def on_result(tag, exp, got, exc, objid, pdf):
        if got != exp:
            kind = "exc:" + excname(exc) if exc is not None else "wrong-bytes"
            rep("rl:" + kind, "RunLength stream in a PDF decoded to %r instead of %r [%s]" % ((got or b"")[:30], exp[:30], tag),
                {"part": "pdf", "pdf": pdf, "objid": objid, "expected": exp})

    for r in lines(j):
        n += 1
        if r["o"] != r["x"] or r["e"] != "none":
            drift += 1
        runs = r["r"]
        big = any(k == H for (_L, k) in runs)
        for variant, stretch in ((n % 2, False),) + (((n + 1) % 2, True),) * big:
            enc, expect = sr.rl_real(r["enc"], runs, H, variant, stretch)
            if n % 7 == 0:
                got, exc, ev = so.rl_events(enc)
                want = [k if not (stretch and k == H) else 128 for (_L, k) in runs if k]
                if got == expect and [e["o"] for e in ev] != want:
                    drift += 1
            else:
                try:
                    got, exc = rldecode(enc), None
                except Exception as e:      # noqa: BLE001
                    got, exc = None, excname(e)
            if got != expect:
                kind = "exc:" + exc if exc else "wrong-bytes"
                rep("rl:" + kind, "RunLength data %r decoded to %r instead of %r" % (enc[:30], (got or b"")[:30], expect[:30]),
                    {"part": "rl", "enc": enc, "expected": expect})
            batch.add({"Filter": Name(("RunLengthDecode", "RL")[n % 2])}, enc, expect, "enc=%r" % enc[:20])
            ck.case(2, ("rl", H, tuple(r["enc"]), stretch) if len(runs) > 1 else None)
            if batch.full():
                batch.run(on_result)
        if n % 5000 == 1:
            ck.sample({"part": "RunLength", "H": H, "model_encoding": r["enc"], "model_runs": runs,
                       "real_encoding": enc, "decoded": got})
    batch.run(on_result)
    ck.replayed += n
    return n, drift


# =============================================================================================== A: AsciiFrame
def replay_ascii(ck, rep, j, dev, batch):
    from pdfminer.ascii85 import ascii85decode, asciihexdecode
    n = 0
    drift = 0
    devname = {"hex": "HexWhiteSpace", "a85": "A85WhiteSpace"}

    def classify(kind, text, expect, got, exc, model_o_ok, model_e, how, replay):
        nonlocal drift
        if got == expect:
            if not model_o_ok:
                drift += 1
            return
        d = devname[kind]
        if d in dev and exc is not None and model_e != "none" and (0 in text or 12 in text):
            rep("dev:" + d, "%s data with a NUL/FF white-space byte %r raised %s" % (kind, text, excname(exc)), None)
            return
        k = "exc:" + excname(exc) if exc is not None else "wrong-bytes"
        rep("%s:%s" % (kind, k), "%s data %r decoded to %r instead of %r (%s)" % (kind, text, got, expect, how), replay)

    def on_result(tag, exp, got, exc, objid, pdf):
        kind, text, ok, me = tag
        classify(kind, text, exp, got, exc, ok, me, "through a PDF", {"part": "pdf", "pdf": pdf, "objid": objid, "expected": exp})

    for r in lines(j):
        n += 1
        kind = r["k"]
        text = bytes(r["t"])
        if kind == "hex":
            expect = bytes(r["x"])
            model_o_ok = r["e"] == "none" and r["o"] == r["x"]
            fn = asciihexdecode
        else:
            expect = cd.a85_words_to_bytes([w[1] for w in r["x"]])
            model_o_ok = r["e"] == "none" and r["o"] == r["x"]
            fn = ascii85decode
        try:
            got, exc = fn(text), None
        except Exception as e:      # noqa: BLE001
            got, exc = None, e
        classify(kind, text, expect, got, exc, model_o_ok, r["e"], "called directly",
                 {"part": kind, "enc": text, "expected": expect})
        nm = {"hex": ("ASCIIHexDecode", "AHx"), "a85": ("ASCII85Decode", "A85")}[kind][n % 2]
        batch.add({"Filter": Name(nm)}, text, expect, (kind, text, model_o_ok, r["e"]))
        nontriv = len(expect) > 0 and any(c in text for c in (0, 9, 10, 12, 13, 32))
        ck.case(2, ("ascii", kind, text) if nontriv else None)
        if batch.full():
            batch.run(on_result)
        if n % 6000 == 1:
            ck.sample({"part": "AsciiFrame", "filter": kind, "encoded": text, "expected": expect, "decoded": got,
                       "exception": excname(exc) if exc else None, "as_coded_model": {"out": r["o"], "err": r["e"]}})
    batch.run(on_result)
    ck.replayed += n
    return n, drift


# =============================================================================================== A: Predictor
def predictor_trigger(kind, c, k, b, types):
    """which named deviation of apply_png_predictor an input touches (mirrors `trig` of Predictor.tla)"""
    if kind != "png":
        return []
    out = []
    if (c * k * b) % 8:
        out.append("PngRowFloor")
    if c * b < 8 and any(t in (1, 3, 4) for t in types):
        out.append("PngBppFloor")
    if types and types[0] in (2, 3, 4) and cd.row_length(c, k, b) > k:
        out.append("PngAboveColumns")
    return out


def call_predictor(kind, c, k, b, enc, pred=12):
    from pdfminer.utils import apply_png_predictor, apply_tiff_predictor
    try:
        if kind == "png":
            return apply_png_predictor(pred, c, k, b, enc), None
        return apply_tiff_predictor(c, k, b, enc), None
    except Exception as e:      # noqa: BLE001
        return None, e


def judge_predictor(rep, dev, kind, c, k, b, types, expect, got, exc, model, how, replay, counters):
    """model: (out bytes, err, pc, trig) of the as-coded machine, or None at real scale"""
    unsupported = exc is not None and "nsupported `bitspercomponent'" in str(exc)
    if unsupported:
        if b in SUPPORTED_BITS[kind]:
            rep("%s:unsupported-bits" % kind, "%d bits per component rejected as unsupported (%s)" % (b, how), replay)
        else:
            counters["declared_unsupported"] += 1
        return
    if got == expect:
        if model is not None and (model[1] != "none" or model[0] != expect or model[2] == "unsupported"):
            counters["drift"] += 1
        return
    trig = [d for d in (model[3] if model is not None else predictor_trigger(kind, c, k, b, types)) if d in dev]
    same = model is None or ((got is None) == (model[1] != "none")
                             and (got == model[0] if got is not None else excname(exc) == model[1]))
    if trig and same:
        d = next(x for x in DEV_PRIORITY if x in trig)
        rep("dev:" + d, "PNG predictor colors=%d columns=%d bits=%d row types %r: %s instead of %r"
            % (c, k, b, list(types)[:6], excname(exc) if exc is not None else repr(got[:20]), expect[:20]), None)
        return
    kk = "exc:" + excname(exc) if exc is not None else "wrong-bytes"
    rep("%s:%s" % (kind, kk), "%s predictor colors=%d columns=%d bits=%d row types %r gave %s instead of %r (%s)"
        % (kind, c, k, b, list(types)[:6], excname(exc) if exc is not None else repr(got[:20]), expect[:20], how), replay)


def replay_predictor(ck, rep, j, dev, batch, stride_pdf, counters):
    n = 0
    seen_types = set()

    def on_result(tag, exp, got, exc, objid, pdf):
        (kind, c, k, b, types, model) = tag
        judge_predictor(rep, dev, kind, c, k, b, types, exp, got, exc, model, "Flate stream with /Predictor in a PDF",
                        {"part": "pdf", "pdf": pdf, "objid": objid, "expected": exp}, counters)

    for r in lines(j):
        n += 1
        kind, c, k, b, rows = r["g"]
        types = r["t"]
        enc = bytes(r["enc"])
        expect = bytes(r["x"])
        model = (bytes(r["o"]), r["e"], r["pc"], r["trig"])
        if kind == "png":
            seen_types.update((i == 0, t) for i, t in enumerate(types))
            if c * b > 8 and (c * b) % 8 and b in SUPPORTED_BITS["png"] and any(t in (1, 3, 4) for t in types):
                seen_types.add("bpp-ceiling")
        got, exc = call_predictor(kind, c, k, b, enc, pred=10 + (types[0] if kind == "png" else 0))
        judge_predictor(rep, dev, kind, c, k, b, types, expect, got, exc, model, "called directly",
                        {"part": "predictor", "kind": kind, "colors": c, "columns": k, "bits": b, "enc": enc,
                         "expected": expect}, counters)
        nontriv = any(types) or kind == "tiff"
        ck.case(1, ("pred", kind, c, k, b, tuple(types), expect) if nontriv else None)
        if n % stride_pdf == 0:
            parm = {"Predictor": 2 if kind == "tiff" else 10 + types[0], "Colors": c, "Columns": k, "BitsPerComponent": b}
            batch.add({"Filter": Name(("FlateDecode", "Fl")[n % 2]), "DecodeParms": parm}, zlib.compress(enc, 1), expect,
                      (kind, c, k, b, types, model))
            ck.case(1)
            if batch.full():
                batch.run(on_result)
        if n % 20000 == 1:
            ck.sample({"part": "Predictor", "geometry": r["g"], "row_filter_types": types, "original": expect,
                       "filtered": enc, "decoded": got, "exception": excname(exc) if exc else None,
                       "as_coded_model": {"out": r["o"], "err": r["e"], "deviations_touched": r["trig"]}})
    batch.run(on_result)
    need = {(first, t) for first in (True, False) for t in range(5)} | {"bpp-ceiling"}
    if not need <= seen_types:
        raise MachineryError("Predictor enumeration misses row filter types %s" % sorted(need - seen_types))
    ck.replayed += n
    return n


# =============================================================================================== B: traces
def payload_corpus(ck, rng):
    """(origin, bytes) payloads far outside the exhaustive bounds"""
    out = []
    mix = bytes(rng.choice(b"ab\x00\xff") if rng.random() < .7 else rng.randrange(256) for _ in range(30000))
    out.append(("random mixture 30000", mix))
    out.append(("run of one byte 6000", b"a" * 6000))
    out.append(("two-byte period 5000", b"ab" * 2500))
    rnd = bytes(rng.randrange(256) for _ in range(9000))
    for nn in (252, 253, 254, 255, 256, 764, 765, 766, 767, 768, 1788, 1789, 1790, 1791, 1792, 3836, 3838, 3839, 3840, 3841):
        out.append(("random prefix %d (width-switch boundary)" % nn, rnd[:nn]))
    out.append(("EOD look-alikes", bytes([128, 128, 0, 127, 129, 255] * 300)))
    if ck.tier == "thorough":
        out.append(("random 65536", bytes(rng.randrange(256) for _ in range(65536))))
        out.append(("text-like 65536", bytes(rng.choice(b"etaoin shrdlu\n") for _ in range(65536))))
        for nn in range(240, 270):
            out.append(("random prefix %d" % nn, rnd[:nn]))
        for nn in range(3800, 3860, 3):
            out.append(("random prefix %d" % nn, rnd[:nn]))
    return out


def sample_streams(ck, rng, chain_traces):
    """decoded streams of repository samples (for re-encoding) + decode-call traces of the samples as they are"""
    from pdfminer.pdfdocument import PDFDocument
    from pdfminer.pdfparser import PDFParser
    from pdfminer.pdftypes import PDFStream
    files = sorted(glob.glob("/repo/samples/**/*.pdf", recursive=True))
    if not files:
        raise MachineryError("no repository samples found")
    if ck.tier == "quick":
        files = [f for f in files if os.path.getsize(f) < 200000]
        files = rng.sample(files, min(8, len(files)))
    per_file = 6 if ck.tier == "quick" else 60
    out = []
    skipped = 0
    for fn in files:
        rel = os.path.relpath(fn, "/repo")
        try:
            fp = open(fn, "rb")
            doc = PDFDocument(PDFParser(fp))
            ids = sorted({i for x in doc.xrefs for i in x.get_objids()})
        except Exception:       # noqa: BLE001 - encrypted / damaged samples are not this property's subject
            skipped += 1
            continue
        got = 0
        for i in ids:
            if got >= per_file:
                break
            try:
                o = doc.getobj(i)
            except Exception:   # noqa: BLE001
                continue
            if not isinstance(o, PDFStream) or o.data is not None:
                continue
            try:
                shape = so.attrs_shape(o.attrs)
                with so.decode_calls() as log:
                    data = o.get_data()
                calls = list(log)
            except Exception:   # noqa: BLE001 - damaged or unsupported streams: C13
                continue
            got += 1
            chain_traces.append({"a": shape, "c": calls, "origin": "%s object %d" % (rel, i)})
            if 0 < len(data):
                out.append(("%s object %d" % (rel, i), data[:65536]))
        fp.close()
    ck.extra["sample_files_skipped"] = skipped
    return out


def record_traces(ck, rep, dev, rng, chain_traces):
    lzw, rl, pred = [], [], []
    budget = {"lzw": 80000, "pred": 8000} if ck.tier == "quick" else {"lzw": 1000000, "pred": 30000}
    corpus = payload_corpus(ck, rng)
    samples = sample_streams(ck, rng, chain_traces)
    ck.extra["sample_streams_reencoded"] = len(samples)
    if ck.tier == "quick":
        samples = samples[:10]
    for idx, (origin, data) in enumerate(corpus + samples):
        # ---- LZW: greedy, early table clear (4094), an extra clear, no EOD; /EarlyChange 0; deferred clear
        variants = [dict()] if idx % 3 else [dict(), dict(clear_at=4094), dict(extra_clears=(len(data) // 2,)), dict(eod=False)]
        if ck.tier == "quick" and len(data) > 10000:
            variants = variants[:2]
        if idx % 4 == 1 or idx == 0:
            variants = variants + [dict(ec=0)]
        if idx == 0:
            variants = ([dict(), dict(ec=0), dict(defer=None)] if ck.tier == "quick"
                        else variants + [dict(defer=None), dict(defer=700, ec=0)])
        for kw in variants:
            ec = kw.get("ec", 1)
            enc = cd.lzw_encode(data, **kw)
            got, exc, ev = so.lzw_events(enc, ec)
            ck.case(1, ("B-lzw", origin, json.dumps(kw, sort_keys=True)))
            if got == data and ec == 1:
                got, exc, _e2 = so.lzw_events(enc, 1, direct=True)      # the decoder function called directly
            if got != data:
                if ec == 0 and "LzwEarlyChangeIgnored" in dev and len(ev) > 250:
                    rep("dev:LzwEarlyChangeIgnored", "LZW stream of %s (%d bytes) written with /EarlyChange 0 decoded wrongly"
                        % (origin, len(data)), None)
                    continue
                kind = "exc:" + exc if exc else "wrong-bytes"
                rep("lzw:" + kind, "LZW round trip of %s (%d bytes, %r) failed" % (origin, len(data), kw),
                    {"part": "lzw", "enc": enc, "expected": data, "ec": ec})
                continue
            if budget["lzw"] > 0:       # (every round trip is compared above; TLC validates traces up to a budget of events)
                budget["lzw"] -= len(ev)
                lzw.append({"ev": ev, "total": len(data), "ec": ec, "defer": "defer" in kw,
                            "origin": origin + " " + json.dumps(kw)})
        if idx % 5 == 0 and data:
            # data after EOD (an end-of-line counted into /Length, or anything else) must not be decoded
            for trail in (b"\n", b"\r\n", b"\x00\x00"):
                enc = cd.lzw_encode(data) + trail
                got, exc, ev = so.lzw_events(enc)
                ck.case(1, ("B-lzw-trail", origin, trail))
                if got != data:
                    if "LzwEodContinues" in dev:
                        rep("dev:LzwEodContinues", "LZW stream of %s followed by %r after EOD decoded to %d bytes instead of %d"
                            % (origin, trail, len(got or b""), len(data)), None)
                    else:
                        rep("lzw:after-eod", "LZW stream of %s followed by %r after EOD decoded wrongly" % (origin, trail),
                            {"part": "lzw", "enc": enc, "expected": data})
                elif budget["lzw"] > 0 and (ck.tier != "quick" or len(ev) < 6000):
                    budget["lzw"] -= len(ev)
                    lzw.append({"ev": ev, "total": len(data), "ec": 1, "defer": False, "origin": origin + " +trail"})
        # ---- RunLength: greedy and a random legal segmentation
        for rr in (None, random.Random(idx)):
            enc = cd.rl_encode(data, rr, eod=(idx % 2 == 0))
            got, exc, ev = so.rl_events(enc)
            ck.case(1, ("B-rl", origin, rr is None))
            if got != data:
                kind = "exc:" + exc if exc else "wrong-bytes"
                rep("rl:" + kind, "RunLength round trip of %s (%d bytes) failed" % (origin, len(data)),
                    {"part": "rl", "enc": enc, "expected": data})
                continue
            rl.append({"enc": list(enc), "ev": ev, "total": len(data), "origin": origin})
        # ---- predictors at real scale (rows of up to 400 bytes)
        d = data[:4800]
        # (colors, columns, bits): bits per pixel 8, 24, 32, 16, 1 - and 12, 9, 20 (above 8, not a multiple of 8: the
        # bytes-per-pixel ceiling), 5
        geoms = [(1, 1 + (idx * 7) % 97, 8), (3, 1 + (idx * 5) % 61, 8), (4, 1 + idx % 23, 8), (2, 17, 8), (1, 8 * (1 + idx % 9), 1),
                 (12, 1 + idx % 29, 1), (9, 1 + (idx * 3) % 17, 1), (20, 1 + idx % 11, 1), (5, 3 + idx % 40, 1)]
        for gi, (c, k, b) in enumerate(geoms):
            rlen = cd.row_length(c, k, b)
            rows = min(len(d) // rlen, 24)
            if rows == 0:
                continue
            x = d[:rows * rlen]
            types = [(idx + gi + 3 * r_) % 5 for r_ in range(rows)]
            for kind in (("png", "tiff") if b == 8 else ("png",)):
                enc = cd.png_predict(x, c, k, b, types) if kind == "png" else cd.tiff_predict(x, c, k)
                if kind == "png":
                    got, exc, ev = so.png_events(10 + types[0], c, k, b, enc)
                else:
                    got, exc, ev = so.tiff_events(c, k, b, enc)
                ck.case(1, ("B-pred", origin, kind, c, k, b))
                cnt = {"declared_unsupported": 0, "drift": 0}
                if got != x:
                    judge_predictor(rep, dev, kind, c, k, b, types, x, got, Exception(exc) if exc else None, None,
                                    "at real scale on %s" % origin,
                                    {"part": "predictor", "kind": kind, "colors": c, "columns": k, "bits": b, "enc": enc,
                                     "expected": x}, cnt)
                    continue
                if budget["pred"] <= 0:
                    continue
                budget["pred"] -= len(ev)
                pred.append({"kind": kind, "colors": c, "columns": k, "bits": b, "enc": list(enc),
                             "rows": [{"ty": e["ty"], "raw": e["raw"]} for e in ev], "origin": origin})
    if ck.tier == "thorough":
        # ---- 12-bit table-full with /EarlyChange both ways, clear at once / deferred / never (real constants)
        big = bytes(rng.randrange(256) for _ in range(9000))
        budget["lzw"] = max(budget["lzw"], 0) + 400000
        for ec in (1, 0):
            for defer in (0, 5, 900, None):
                for data in (big, big[:4200], bytes(rng.choice(b"abc") for _ in range(60000))):
                    kw = dict(ec=ec, defer=defer)
                    enc = cd.lzw_encode(data, **kw)
                    got, exc, ev = so.lzw_events(enc, ec)
                    origin = "table-full %d bytes %r" % (len(data), kw)
                    ck.case(1, ("B-lzw-full", len(data), ec, defer))
                    if got != data:
                        if ec == 0 and "LzwEarlyChangeIgnored" in dev:
                            rep("dev:LzwEarlyChangeIgnored", "LZW stream (%s) decoded wrongly" % origin, None)
                        else:
                            rep("lzw:" + ("exc:" + exc if exc else "wrong-bytes"), "LZW round trip (%s) failed" % origin,
                                {"part": "lzw", "enc": enc, "expected": data, "ec": ec})
                        continue
                    if max(e["t"] for e in ev) < 4095:
                        raise MachineryError("table-full corpus did not fill the table (%s)" % origin)
                    if budget["lzw"] > 0 and len(ev) < (12000 if defer != 0 else 30000):
                        budget["lzw"] -= len(ev)
                        lzw.append({"ev": ev, "total": len(data), "ec": ec, "defer": defer != 0, "origin": origin})
    # ---- PNG predictors of every depth x 1..4 colours through PDFs (Flate + /DecodeParms, direct or indirect)
    batch = sr.PdfBatch(size=300)
    cnt = {"declared_unsupported": 0, "drift": 0}
    npdf = [0]

    def on_pred(tag, exp, got, exc, objid, pdf):
        (c, k, b, types) = tag
        npdf[0] += 1
        judge_predictor(rep, dev, "png", c, k, b, types, exp, got, exc, None, "Flate stream with /Predictor in a PDF, %d bits" % b,
                        {"part": "pdf", "pdf": pdf, "objid": objid, "expected": exp}, cnt)

    cols = (3, 13) if ck.tier == "quick" else (1, 2, 3, 5, 8, 13, 31)
    pats = ((0, 1, 2, 3, 4), (4, 3, 2, 1, 0)) if ck.tier == "quick" else tuple(tuple((t0 + q * r_) % 5 for r_ in range(5))
                                                                                for t0 in range(5) for q in (0, 1, 2))
    for b in (1, 2, 4, 16, 8):
        for c in ((1, 2, 3, 4, 9, 13, 20) if b == 1 else (1, 2, 3, 4, 5) if b in (2, 4) else (1, 2, 3, 4)):
            for k in cols:
                for pi, types in enumerate(pats):
                    rlen = cd.row_length(c, k, b)
                    x = bytes(rng.choice((0, 1, 127, 128, 255, rng.randrange(256))) for _ in range(rlen * 5))
                    enc = cd.png_predict(x, c, k, b, list(types))
                    parm = {"Predictor": 10 + types[0], "Colors": c, "Columns": k, "BitsPerComponent": b}
                    if pi % 2:
                        parm = batch.alloc(parm)
                    batch.add({"Filter": Name("FlateDecode"), "DecodeParms": parm}, zlib.compress(enc), x, (c, k, b, types))
                    ck.case(1, ("B-pred-pdf", b, c, k, types))
                    if batch.full():
                        batch.run(on_pred)
    batch.run(on_pred)
    ck.extra["png_predictor_through_pdf"] = {"streams": npdf[0], "declared_unsupported_by_the_code": cnt["declared_unsupported"],
                                             "depths": [1, 2, 4, 8, 16], "colors": [1, 2, 3, 4, "9, 13, 20 at 1 bit", "5 at 2 and 4 bits"],
                                             "columns": list(cols)}
    # ---- PNG predictor inputs that touch the known deviations, at real scale (classified, not traced)
    for (c, k, b, t0) in ((3, 40, 8, 2), (3, 40, 8, 3), (4, 25, 8, 4), (1, 10, 1, 0), (1, 16, 1, 1)):
        rlen = cd.row_length(c, k, b)
        x = bytes(rng.randrange(256) for _ in range(rlen * 5))
        types = [t0, 0, 2, 0, 2] if b < 8 else [t0, 1, 2, 3, 4]
        enc = cd.png_predict(x, c, k, b, types)
        got, exc = call_predictor("png", c, k, b, enc)
        cnt = {"declared_unsupported": 0, "drift": 0}
        ck.case(1, ("B-pred-dev", c, k, b, t0))
        judge_predictor(rep, dev, "png", c, k, b, types, x, got, exc, None, "at real scale",
                        {"part": "predictor", "kind": "png", "colors": c, "columns": k, "bits": b, "enc": enc, "expected": x}, cnt)
    return lzw, rl, pred


TRACE_SPECS = {
    "lzw": ("LZWTrace", {"Alpha": 256, "MinBits": 9, "MaxBits": 12, "ByteBits": 8}, ["WidthInv", "TableBound"], "l"),
    "rl": ("RunLengthTrace", {"H": 128}, ["PosOK"], "l"),
    "pred": ("PredictorTrace", {}, ["RowLenInv"], "r"),
    "chain": ("FilterChainTrace", {}, ["Bounded"], "l"),
}


def corrupt(kind, tr):
    """one recorded field changed - the trace spec must reject it, and say where"""
    t = json.loads(json.dumps(tr))
    if kind == "lzw":
        # TLC prints the whole behaviour up to the rejection, each state with the table abstraction: keep the
        # corrupted event early (but beyond the first width switch at 253 codes where the trace is that long)
        i = min(len(t["ev"]) - 1, max(2, min(400, len(t["ev"]) * 2 // 3)))
        t["ev"][i]["w"] += 1
        return t, i
    if kind == "rl":
        i = len(t["ev"]) // 2
        t["ev"][i]["o"] += 1
        return t, i
    if kind == "pred":
        i = len(t["rows"]) // 2
        t["rows"][i]["raw"][0] = (t["rows"][i]["raw"][0] + 1) % 256
        return t, i
    i = len(t["c"]) - 1
    t["c"][i] = "RL" if t["c"][i] != "RL" else "Fl"
    return t, i


def run_trace_tlc(ck, kind, traces, tag):
    mod, consts, invs, _ix = TRACE_SPECS[kind]
    tf = os.path.join(ck.tmp, "c03_trace_%s_%s.json" % (kind, tag))
    with open(tf, "w") as f:
        json.dump(traces, f)
    cfg = write_cfg(os.path.join(ck.tmp, "c03_trace_%s_%s.cfg" % (kind, tag)), constants=consts, spec="Spec",
                    invariants=invs, deadlock=True)
    res = run_tlc(os.path.join(S, mod + ".tla"), cfg, workers=1, env={"TRACE_FILE": tf}, timeout=3000, heap="6g")
    os.remove(tf)
    _t("trace tlc %s/%s: %d traces %.1fs %d states" % (kind, tag, len(traces), res.wall, res.distinct))
    return res


def validate_traces(ck, rep, kind, traces):
    """-> number of accepted traces"""
    mod, consts, invs, ix = TRACE_SPECS[kind]
    todo = list(traces)
    rejected = 0
    rounds = 0
    while todo:
        res = run_trace_tlc(ck, kind, todo, "r%d" % rounds)
        rounds += 1
        ck.add_tlc(res, "%s: %d recorded traces" % (mod, len(todo)))
        if res.ok:
            break
        if not res.error_trace:
            raise MachineryError("trace validation failed unexpectedly: " + res.error_text[:2000])
        st = res.error_trace[-1][1]
        t = int(st["t"])
        k = int(st[ix])
        tr = todo[t - 1]
        rejected += 1
        why = "deadlock" if res.violated == "deadlock" else "invariant " + str(res.violated)
        rep("trace-rejected:" + kind, "recorded %s trace of %s is not a behaviour of %s: %s after %d accepted events"
            % (kind, tr.get("origin"), mod, why, k), {"part": "trace", "kind": kind, "trace": tr, "index": k})
        todo = todo[t:]
        if rejected >= 3 and todo:
            ck.note("%d recorded %s traces left unexamined after 3 rejections" % (len(todo), kind))
            rejected += len(todo)
            break
    return len(traces) - rejected


def corruption_guard(ck, kind, traces):
    if not traces:
        raise MachineryError("no %s traces were recorded" % kind)
    _mod, _c, _i, ix = TRACE_SPECS[kind]
    size = lambda t: len(t.get("ev") or t.get("rows") or t.get("c") or ())       # noqa: E731
    # (TLC prints the whole behaviour up to the rejection: a trace of some hundred events keeps that short,
    #  and for LZW still runs through the first width switch at 253 codes)
    base = min(traces, key=lambda t: abs(size(t) - 600)) if kind == "lzw" else max(traces[:40], key=size)
    bad, where = corrupt(kind, base)
    res = run_trace_tlc(ck, kind, [bad], "corrupt")
    PHASES["corruption guard %s (TLC wall)" % kind] = round(res.wall, 1)
    if res.ok or not res.error_trace:
        raise MachineryError("%s accepted a corrupted trace (field changed at event %d)" % (TRACE_SPECS[kind][0], where))
    k = int(res.error_trace[-1][1][ix])
    if k != where:
        raise MachineryError("%s rejected the corrupted trace at event %d, the change was at %d" % (TRACE_SPECS[kind][0], k, where))
    return {"spec": TRACE_SPECS[kind][0], "corrupted_event": where, "events_accepted_before_rejection": k}


# =============================================================================================== worker processes
class Proxy:
    """stands in for harness.core.Check inside a worker process; what it collects is merged by the parent"""

    def __init__(self, init):
        self.pid, self.tier, self.seed, self.tmp = init["pid"], init["tier"], init["seed"], init["tmp"]
        self._known = set(init["known"])
        self.evaluations = 0
        self.nontrivial = set()
        self.samples = []
        self.notes = []
        self.violations = []
        self.uncounted = {}
        self.known = {}
        self.extra = {}
        self.replayed = 0

    def is_known(self, key):
        return key in self._known

    def case(self, n=1, nontrivial_key=None):
        self.evaluations += n
        if nontrivial_key is not None:
            self.nontrivial.add(hash(nontrivial_key))

    def sample(self, obj, limit=2):
        if len(self.samples) < limit:
            self.samples.append(obj)

    def note(self, s):
        if len(self.notes) < 10:
            self.notes.append(s)

    def violation(self, key, what, replay=None):
        if key in self._known:
            c = self.known.setdefault(key, [0, what])
            c[0] += 1
            return False
        self.violations.append((key, what, replay))
        return True

    def dump(self):
        return {"evaluations": self.evaluations, "nontrivial": self.nontrivial, "samples": self.samples, "notes": self.notes,
                "violations": self.violations, "uncounted": self.uncounted, "known": self.known, "extra": self.extra,
                "replayed": self.replayed}


def merge(ck, d):
    ck.evaluations += d["evaluations"]
    ck.nontrivial |= d["nontrivial"]
    ck.replayed += d["replayed"]
    for smp in d["samples"]:
        ck.sample(smp, limit=24)
    for nt in d["notes"]:
        if nt not in ck.notes:
            ck.note(nt)
    for key, (cnt, what) in d["known"].items():
        ck.violation(key, what, None)
        ck.known_hits[key] = ck.known_hits.get(key, 0) + cnt - 1
    for (key, what, replay) in d["violations"]:
        ck.violation(key, what, replay)
    for key, cnt in d["uncounted"].items():
        ck.violations.extend([(key, "(further cases of the same kind)", None)] * cnt)
    for k, v in d["extra"].items():
        ck.extra[k] = v


class JobInfo:
    def __init__(self, label, emit_path, emitted):
        self.label, self.emit_path, self.emitted = label, emit_path, emitted


def task(kind, init, jobinfo, params):
    """runs in a worker process: one replay (direction A) or the trace recording (direction B)"""
    import logging
    import time
    t_start = time.time()
    logging.disable(logging.CRITICAL)
    ck = Proxy(init)
    rep = Reporter(ck)
    out = {}
    dev = params.get("dev", [])
    if kind == "traces":
        chain = []
        lzw, rl, pred = record_traces(ck, rep, dev, random.Random(ck.seed), chain)
        out["traces"] = {"lzw": lzw, "rl": rl, "pred": pred, "chain": chain}
    else:
        j = JobInfo(*jobinfo)
        batch = sr.PdfBatch(size=400)
        if kind == "sd":
            _n, out["drift"] = replay_delim(ck, rep, j, params["variants"])
        elif kind == "fc":
            chain = []
            kw = {"want_calls": params["want_calls"]} if "want_calls" in params else {}
            _n, out["drift"] = replay_chain(ck, rep, j, 1, chain, params["trace_stride"], **kw)
            out["traces"] = {"chain": chain}
        elif kind == "so":
            _n, out["drift"] = replay_object(ck, rep, j)
        elif kind == "lzw":
            nm = params["maps"]
            maps = (lambda n: tuple((n + i) % 4 for i in range(nm)))
            _n, out["drift"] = replay_lzw(ck, rep, j, 2, 3, maps, batch, params["want"], dev)
        elif kind == "rl":
            _n, out["drift"] = replay_rl(ck, rep, j, params["H"], batch)
        elif kind == "sdx":
            _n, out["ext"] = replay_delim_ext(ck, rep, j, params["variants"])
        elif kind == "fl":
            _n, out["ext"] = replay_flate(ck, rep, j, random.Random(ck.seed))
        elif kind == "af":
            _n, out["drift"] = replay_ascii(ck, rep, j, dev, batch)
        elif kind == "pr":
            counters = {"declared_unsupported": 0, "drift": 0}
            replay_predictor(ck, rep, j, dev, batch, params["stride_pdf"], counters)
            out["drift"] = counters["drift"]
            ck.extra["predictor_cases_declared_unsupported_by_the_code"] = counters["declared_unsupported"]
        else:
            raise MachineryError("unknown task " + kind)
    if so.DEGRADED:
        ck.extra["degraded_observation_" + kind] = sorted(so.DEGRADED)
        ck.note("loop observation unavailable for %s (its source no longer has the observed line): per-run events were "
                "derived from the function's result" % ", ".join(sorted(so.DEGRADED)))
    out["log"] = ck.dump()
    out["wall_s"] = round(time.time() - t_start, 1)
    return out


def report_extended(ck, ext):
    """extended coverage is reported as NOTEs: C03 promises nothing for a wrong /Length or damaged Flate data"""
    sl = ext.get("stream_length_and_fallback")
    if sl:
        ck.note("extended coverage (wrong/missing /Length, fallback mode): %d cases; delivered as StreamDelim.tla states in %d, "
                "differently in %d; parser resumes as stated in %d, differently in %d; %d cases in documents that could not be opened"
                % (sl["cases"], sl["delivered_as_stated"], sl["differs_from_statement"], sl["resume_as_stated"],
                   sl["resume_differs_from_statement"], sl["could_not_open"]))
        ck.note("extended coverage, against `the payload up to the EOL before endstream`: "
                + "; ".join("%s: %d" % kv for kv in sorted(sl["categories"].items())))
        for e in sl["examples"]:
            ck.note("extended coverage example: " + e[:300])
    fl = ext.get("flate_recovery")
    if fl:
        ck.note("extended coverage (Flate recovery): %d enumerated damaged streams, result = bytes inflate produced before the "
                "failure in %d, differs in %d, warning rule differs in %d; %d damaged deflate streams at real scale, differs in %d"
                % (fl["cases"], fl["as_stated"], fl["differs_from_statement"], fl["warning_rule_differs"],
                   fl["real_scale_cases"], fl["real_scale_differs"]))
        for e in fl["examples"]:
            ck.note("extended coverage example: " + e[:300])


# =============================================================================================== run
def run(ck):
    _t("start")
    cd.self_check()
    rep = Reporter(ck)
    dev = active("stream")
    quick = ck.tier == "quick"
    ck.extra["deviations_modelled_as_coded"] = dev
    ck.rule = ("A: every terminal state of the exhaustive TLC runs (StreamDelim: payloads over {x,CR,LF,NUL,endstream,endobj} "
               "x EOL forms x BUFSIZ x Length form; FilterChain: chains x dictionary shapes; LZW: inputs x clear position x EOD; "
               "RunLength: payloads x every segmentation; AsciiFrame: payloads x white-space insertion x framing; Predictor: "
               "geometries x images x row-filter assignments), each realised with 1-4 concrete representatives and decoded by the "
               "real code directly and inside generated PDFs. Non-trivial = payload contains an EOL/NUL/endstream or Length is "
               "indirect (StreamDelim); >= 2 layers or a predictor (FilterChain); more than one code after the clear (LZW); more "
               "than one run (RunLength); non-empty payload with white space in the data (AsciiFrame); a non-None filter type or "
               "TIFF (Predictor). B: one recorded trace per (payload, encoder variant); distinct by origin and variant.")
    ck.assumptions = ["zlib inflate, base-85 arithmetic (base64.a85decode) and binascii.unhexlify are trusted primitives",
                      "PNG predictors: 1 and 8 bits per component are the supported depths (others are declared unsupported "
                      "by the code and excluded by the property's wording); TIFF predictor 2: 8 bits",
                      "LZW /EarlyChange 0 is not part of the property statement and is not modelled"]
    png_dev = [d for d in dev if d.startswith("Png")]
    asc_dev = [d for d in dev if d.endswith("WhiteSpace")]
    # ------------------------------------------------------------------ TLC jobs (run concurrently)
    sd_c = {"Syms": '{"x", "CR", "LF", "NUL", "ES", "EO"}', "MaxLen": 3 if quick else 4, "EolAfter": '{"LF", "CRLF"}',
            "EolBefore": '{"", "LF", "CR", "CRLF"}', "BufSizes": "{2, 64}" if quick else "{2, 5, 64}",
            "LenKinds": '{"direct", "indirect"}',
            "Deltas": "<- DeltasExact", "Fallbacks": "{FALSE}"}
    lzw_dev = [d for d in dev if d.startswith("Lzw")]

    def lz(mx, ml, pre, d="{}", eods="{TRUE, FALSE}", ecs="{1}", defers="{0}", trails="{0}", maxxc=99):
        return {"MaxXC": maxxc, "Alpha": 2, "MinBits": 3, "MaxBits": mx, "ByteBits": 2, "MaxLen": ml, "Prefix": "<- " + pre, "EODs": eods,
                "ECs": ecs, "Defers": defers, "Trails": trails, "TrailBytes": "{0, 3}", "Dev": d}
    lzw_inv = ["Inverts", "PrefixOK", "WidthSwitchOK", "TableBound", "NoError"]
    # F: 3-bit codes only (table-full, clear at once / deferred / never); W: 3..4 bits (/EarlyChange both ways,
    # bytes after EOD); WF: prefix that fills the table (width switch, table-full, deferred clear, both /EarlyChange)
    lzF = dict(mx=3, ml=8 if quick else 10, pre="PrefixNone", eods="{TRUE}" if quick else "{TRUE, FALSE}",
               defers="{0, 99}" if quick else "{0, 2, 99}", maxxc=4 if quick else 99)
    lzW = dict(mx=4, ml=5 if quick else 9, pre="PrefixNone", ecs="{0, 1}", trails="{0, 1}" if quick else "{0, 1, 2}")
    lzWF = dict(mx=4, ml=3 if quick else 6, pre="PrefixWF", ecs="{0, 1}", defers="{0, 99}" if quick else "{0, 3, 99}")
    af_c = lambda d: {"Dev": d, "HexBytes": "{0, 74, 160, 255}", "HexMaxLen": 2 if quick else 3,          # noqa: E731
                      "WSChoice": "{32, 10, 12, 0}" if quick else "{32, 10, 13, 9, 12, 0}", "A85MaxGroups": 2}
    pr_c = lambda d, g: {"Dev": d, "Geoms": "<- " + g, "Vals": "{0, 1, 255}", "ValsBig": "{1, 255}",      # noqa: E731
                         "SmallBytes": 4 if quick else 8, "Types": "{0, 1, 2, 3, 4}"}
    geoms = "GeomsQuick" if quick else "GeomsFull"
    jobs = {
        "sd": Job("StreamDelim", "MC_StreamDelim", sd_c, ["PayloadExact", "ResumeOK", "BufferOK"], ["NlProgress"], emit=True,
                  coverage=quick),
        "fc": Job("FilterChain", "MC_FilterChain", {"Layers": "<- LayersCore" if quick else "<- LayersAll", "MaxChain": 2},
                  ["ChainInverts", "PeelsInOrder", "CallsMatch", "CallsAsPredicted"], emit=True, coverage=quick),
        "fc3": Job("FilterChain_three_stages", "MC_FilterChain",
                   {"Layers": "<- LayersLeakSmall" if quick else "<- LayersLeak", "MaxChain": 3},
                   ["ChainInverts", "PeelsInOrder", "CallsMatch", "CallsAsPredicted"], emit=True),
        "so": Job("StreamObject", "MC_StreamObject", {"MaxCalls": 3 if quick else 4, "Payloads": "<- TwoPayloads"},
                  ["SameAnswerEveryTime", "RawUntilDecoded", "OneHeld", "OnlyDoubleDecodeFails"], emit=True, coverage=quick),
        "lzwF": Job("LZW_full", "MC_LZW", lz(**lzF), lzw_inv, emit=True, coverage=quick),
        "lzwW": Job("LZW_width", "MC_LZW", lz(**lzW), lzw_inv, emit=not lzw_dev, coverage=quick),
        "lzwWF": Job("LZW_width_full", "MC_LZW", lz(**lzWF), lzw_inv, emit=not lzw_dev, coverage=quick),
        "sdx": Job("StreamDelim_wrong_length", "MC_StreamDelim",
                   dict(sd_c, MaxLen=2 if quick else 3, BufSizes="{5}" if quick else "{2, 5, 64}",
                        LenKinds='{"direct", "indirect", "missing", "indirect-missing"}', Deltas="<- DeltasWrong",
                        Fallbacks="{TRUE, FALSE}"),
                   ["PayloadExact", "ResumeOK", "BufferOK", "DeliveredAsStated", "FallbackStatement", "MissingStatement",
                    "WrongLengthStatement"], ["NlProgress"], emit=True),
        "fl": Job("Flate_recovery", "Flate", {"MaxBlocks": 2 if quick else 3, "MaxLit": 2 if quick else 3},
                  ["RecoveredPrefix", "WarnRule", "ChecksumIgnored"], ["Progress"], emit=True, coverage=quick),
        "rl3": Job("RunLength_H3", "RunLength", {"H": 3, "Bytes": "{0, 1, 2, 3, 4, 5}", "MaxLen": 3 if quick else 5,
                                                 "EODs": "{TRUE, FALSE}"},
                   ["Inverts", "PrefixOK", "RunsOK", "PosOK"], emit=True, coverage=quick),
        "rl2": Job("RunLength_H2", "RunLength", {"H": 2, "Bytes": "{0, 1, 2, 3}", "MaxLen": 4 if quick else 6,
                                                 "EODs": "{TRUE, FALSE}"},
                   ["Inverts", "PrefixOK", "RunsOK", "PosOK"], emit=True),
        "af": Job("AsciiFrame_intended", "AsciiFrame", af_c("{}"), ["Inverts"], emit=not asc_dev, coverage=quick),
        "pr": Job("Predictor_intended", "MC_Predictor", pr_c("<- NoDev", geoms), ["Inverts", "RowLengthOK", "RefInverts"],
                  emit=not png_dev),
    }
    if not quick:
        plan_extra = [("fcw", "fcw", "fc", {"trace_stride": 200, "want_calls": ("LZW", "AHx", "A85", "RL", "Fl", "png", "tiff")})]
        jobs["fcw"] = Job("FilterChain_three_stages_wide", "MC_FilterChain", {"Layers": "<- LayersWide", "MaxChain": 3},
                          ["ChainInverts", "PeelsInOrder", "CallsMatch", "CallsAsPredicted"], emit=True)
    if lzw_dev:
        ld = tla_set(lzw_dev)
        jobs["lzwWc"] = Job("LZW_width_as_coded", "MC_LZW", lz(d=ld, **lzW), ["InvertsUnlessDev", "TableBound"], emit=True)
        jobs["lzwWFc"] = Job("LZW_width_full_as_coded", "MC_LZW", lz(d=ld, **lzWF), ["InvertsUnlessDev"], emit=True)
        jobs["lzwr"] = Job("LZW_as_coded_refuted", "MC_LZW", lz(d=ld, **dict(lzW, ml=4)), ["Inverts", "WidthSwitchOK"], workers=2)
    if asc_dev:
        jobs["afc"] = Job("AsciiFrame_as_coded", "AsciiFrame", af_c(tla_set(asc_dev)), [], emit=True)
        jobs["afr"] = Job("AsciiFrame_as_coded_refuted", "AsciiFrame", af_c(tla_set(asc_dev)), ["Inverts"])
    if png_dev:
        jobs["prc"] = Job("Predictor_as_coded", "MC_Predictor", pr_c(tla_set(png_dev), geoms), [], emit=True)
        jobs["prr"] = Job("Predictor_as_coded_refuted", "MC_Predictor", pr_c(tla_set(png_dev), "GeomsTiny"),
                          ["Inverts", "RowLengthOK"])
    import multiprocessing
    pool = ThreadPoolExecutor(max_workers=8)
    procs = ProcessPoolExecutor(max_workers=7, mp_context=multiprocessing.get_context("spawn"))
    init = {"pid": ck.pid, "tier": ck.tier, "seed": ck.seed, "tmp": ck.tmp, "known": ck.known_keys()}
    tf = procs.submit(task, "traces", init, None, {"dev": dev})
    order = ["fc", "fc3", "pr", "prc", "sd", "lzwF", "lzwW", "lzwWc", "lzwWF", "lzwWFc", "sdx", "rl3", "rl2", "af", "afc", "afr",
             "prr", "lzwr", "fl", "so", "fcw"]
    futs = {k: pool.submit(run_job, ck, jobs[k]) for k in order if k in jobs}
    cov = {"sd": ["AKeyword", "AResolveLength", "ASeekKeyword", "ANlFill", "ANlSearch", "ANlAfterCR", "AReadPayload",
                  "AScanLine", "APushStream"],
           "fc": ["AGet", "ANormalise", "Codec", "ACCF", "ANoPredictor", "ATiff", "APng", "ADone"],
           "lzwF": ["ARead", "AClear", "AClearAgain", "AEOD", "AFirst", "AKnown", "AKwKwK"],
           "lzwW": ["ARead", "AClear", "AClearAgain", "AEOD", "AFirst", "AKnown", "AKwKwK"],
           "lzwWF": ["ARead", "AClear", "AClearAgain", "AEOD", "AFirst", "AKnown", "AKwKwK"],
           "rl3": ["AReadLen", "AEOD", "ALiteral", "ARepeat"], "rl2": [], "sdx": [],
           "fl": ["AOneShot", "AFeed", "AExcept", "AEndOfData"], "fc3": [], "fcw": [],
           "so": ["AGetDataFirst", "AGetDataAgain", "AGetRaw", "ADecode", "ADecodeTwice"],
           "af": ["AHexStrip", "AHexEOD", "AUnhex", "AStart", "AEnd", "ACore"], "pr": []}
    # which emitted enumeration is replayed for which module, and how
    plan = [("sd", "sd", "sd", {"variants": (0,) if quick else (0, 1)}),
            ("fc", "fc", "fc", {"trace_stride": 8 if quick else 40}),
            ("fc3", "fc3", "fc", {"trace_stride": 8 if quick else 40,
                                  "want_calls": ("LZW", "LZW0", "AHx") if quick else ("LZW", "LZW0", "AHx", "Fl", "CCF", "png")}),
            ("so", "so", "so", {}),
            ("lzwF", "lzwF", "lzw", {"maps": 1 if quick else 2, "want": ("full", "kwkwk")}),
            ("lzwW", "lzwWc" if lzw_dev else "lzwW", "lzw", {"maps": 1 if quick else 2, "want": ("width", "kwkwk", "ec0", "trail")}),
            ("lzwWF", "lzwWFc" if lzw_dev else "lzwWF", "lzw", {"maps": 1 if quick else 2, "want": ("width", "full", "ec0")}),
            ("sdx", "sdx", "sdx", {"variants": (0,)}), ("fl", "fl", "fl", {}),
            ("rl3", "rl3", "rl", {"H": 3}), ("rl2", "rl2", "rl", {"H": 2}),
            ("af", "afc" if asc_dev else "af", "af", {}),
            ("pr", "prc" if png_dev else "pr", "pr", {"stride_pdf": 2 if quick else 1})]
    if not quick:
        plan = plan + plan_extra
    rfut = {}
    gf, vf = {}, {}
    worker_wall = {}
    sets = None
    pending = list(plan)
    import time
    while pending or sets is None:
        progressed = False
        for entry in list(pending):
            (spec_k, emit_k, kind, params) = entry
            if not (futs[spec_k].done() and futs[emit_k].done()):
                continue
            pending.remove(entry)
            progressed = True
            j = futs[spec_k].result()
            ok = spec_must_hold(ck, rep, j)
            if ok and j.res.actions and cov[spec_k]:
                require_coverage(j.res, cov[spec_k])
            if emit_k != spec_k:
                je = futs[emit_k].result()
                ck.add_tlc(je.res, je.label)
                if not je.res.ok:
                    raise MachineryError("%s enumeration failed: %s" % (je.label, je.res.error_text[:1000]))
            else:
                je = j
            if not ok:
                continue
            rfut[spec_k] = procs.submit(task, kind, init, (je.label, je.emit_path, je.res.emitted), dict(params, dev=dev))
            _t("submitted replay " + spec_k)
        if sets is None and tf.done():
            # -------------------------------------------------------------- B: validate the recorded traces
            tr = tf.result()
            merge(ck, tr["log"])
            worker_wall["record traces (B)"] = tr["wall_s"]
            _t("traces recorded")
            sets = dict(tr["traces"])
            for k in ("lzw", "rl", "pred"):
                gf[k] = pool.submit(corruption_guard, ck, k, sets[k])
                vf[k] = pool.submit(validate_traces, ck, rep, k, sets[k])
            progressed = True
        if not progressed:
            time.sleep(0.05)
    for mod, k in (("AsciiFrame", "afr"), ("Predictor", "prr"), ("LZW", "lzwr")):
        if k in futs:
            r = futs[k].result().res
            ck.add_tlc(r, jobs[k].label)
            ck.extra.setdefault("tlc_refutes_as_coded", {})[mod] = (
                "%s violated: %s" % (r.violated, json.dumps(r.error_trace[-1][1])[:300]) if not r.ok else "not refuted")
            if r.ok:
                ck.note("%s: the listed deviations no longer break the invariants of the as-coded model" % mod)
    drift = {}
    ext = {}
    for k, f in rfut.items():
        r = f.result()
        merge(ck, r["log"])
        worker_wall["replay " + jobs[k].label] = r["wall_s"]
        if "ext" in r:
            ext[{"sdx": "stream_length_and_fallback", "fl": "flate_recovery"}[k]] = r["ext"]
        else:
            drift[jobs[k].label] = r.get("drift", 0)
        if "traces" in r:
            sets["chain"] = sets["chain"] + r["traces"]["chain"]
        _t("replay merged " + k)
    gf["chain"] = pool.submit(corruption_guard, ck, "chain", sets["chain"])
    vf["chain"] = pool.submit(validate_traces, ck, rep, "chain", sets["chain"])
    ck.extra["model_code_drift"] = drift
    ck.extra["extended_coverage"] = ext
    report_extended(ck, ext)
    if any(drift.values()):
        ck.note("spec/code drift (real result satisfies the property, the model predicted otherwise): %r" % drift)
    lzw_t, rl_t, pred_t, chain_traces = sets["lzw"], sets["rl"], sets["pred"], sets["chain"]
    ck.extra["trace_events"] = {"lzw_codes": sum(len(t["ev"]) for t in lzw_t), "rl_runs": sum(len(t["ev"]) for t in rl_t),
                                "predictor_rows": sum(len(t["rows"]) for t in pred_t),
                                "decode_calls": sum(len(t["c"]) for t in chain_traces)}
    ck.extra["trace_counts"] = {k: len(v) for k, v in sets.items()}
    ck.extra["trace_payload_bytes"] = sum(t["total"] for t in lzw_t)
    ck.extra["largest_lzw_trace_codes"] = max(len(t["ev"]) for t in lzw_t)
    ck.extra["corrupted_trace_rejected"] = [gf[k].result() for k in sets]
    for k in sets:
        ck.traces += vf[k].result()
    pool.shutdown()
    procs.shutdown()
    _t("traces validated")
    # where the time goes: wall-clock seconds since the start at which each phase ended (phases overlap: TLC jobs
    # run 8 at a time, replays in 7 worker processes, trace validation in threads), and seconds spent per worker
    ck.extra["phase_wall_s"] = {
        "milestones_since_start": {k: v for k, v in PHASES.items()},
        "tlc_jobs": {r["label"]: r["wall_s"] for r in ck.tlc_runs},
        "tlc_jobs_sum": round(sum(r["wall_s"] for r in ck.tlc_runs), 1),
        "worker_processes": worker_wall,
    }
    if ck.violations:
        by = {}
        for (key, _w, _p) in ck.violations:
            by[key] = by.get(key, 0) + 1
        ck.extra["violations_by_key"] = by
        print("  violations by key: " + ", ".join("%s x%d" % kv for kv in sorted(by.items())))
    if lzw_t:
        t = lzw_t[0]
        ck.sample({"part": "LZWTrace", "origin": t["origin"], "codes": len(t["ev"]), "first_events": t["ev"][:4],
                   "max_table": max(e["t"] for e in t["ev"]), "clears": sum(1 for e in t["ev"] if e["c"] == 256)}, limit=12)
    ck.exhaustive = True


# =============================================================================================== replay
def replay(path):
    doc = json.load(open(path))
    case = unjson(doc["case"])
    part = case.get("part")
    exp = case.get("expected")
    got, exc = None, None
    try:
        if part in ("pdf", "resume"):
            from pdfminer.pdfdocument import PDFDocument
            from pdfminer.pdfparser import PDFParser
            from pdfminer.psparser import PSBaseParser
            if case.get("bufsiz"):
                PSBaseParser.BUFSIZ = case["bufsiz"]
            p = PDFParser(io.BytesIO(case["pdf"]))
            d = PDFDocument(p)
            if part == "resume":
                p.seek(case["offset"])
                seq = []
                try:
                    for _ in range(10):
                        seq.append(p.nextobject()[1])
                except Exception as e:   # noqa: BLE001
                    seq.append(repr(e))
                print("objects read from the stream object on:", seq)
            got = d.getobj(case["objid"]).get_data()
        elif part == "lzw":
            got, exc, _ev = so.lzw_events(case["enc"], case.get("ec", 1))
        elif part == "rl":
            from pdfminer.runlength import rldecode
            got = rldecode(case["enc"])
        elif part == "hex":
            from pdfminer.ascii85 import asciihexdecode
            got = asciihexdecode(case["enc"])
        elif part == "a85":
            from pdfminer.ascii85 import ascii85decode
            got = ascii85decode(case["enc"])
        elif part == "predictor":
            got, exc = call_predictor(case["kind"], case["colors"], case["columns"], case["bits"], case["enc"])
        elif part == "object":
            from pdfminer.pdftypes import PDFStream
            from pdfminer.psparser import LIT
            layers = [tuple(l) for l in case["layers"]]
            at = {}
            if layers:
                at["Filter"] = [LIT(FULL[l[0]]) for l in layers]
                dp = []
                for l, g in zip(layers, case["parms"]):
                    d = dict(g or {})
                    if l[1]:
                        d["Predictor"] = l[1]
                    if l[2] >= 0:
                        d["EarlyChange"] = l[2]
                    if l[0] == "CCF":
                        d["K"] = -1
                    dp.append(d or None)
                at["DecodeParms"] = dp
            st = PDFStream(at, case["raw"])
            for call in case["plan"]:
                got = getattr(st, call)()
                print("%s() -> %r" % (call, got))
                if call == "get_data" and got != exp:
                    break
            got = st.get_data()
        elif part == "chain":
            from pdfminer.pdftypes import PDFObjRef, PDFStream
            fd = FakeDoc()

            def mkref(v):
                k = len(fd.objs) + 1
                fd.objs[k] = v
                return PDFObjRef(fd, k)
            got = PDFStream({k: sr.to_real(v, mkref) for k, v in case["attrs"].items()}, case["raw"]).get_data()
        else:
            print("replay: case of kind %r (%s) is informational: %s" % (part, doc.get("key"), doc.get("what")))
            return 1
    except Exception as e:       # noqa: BLE001
        exc = e
    print("expected: %r" % (exp,))
    print("observed: %r%s" % (got, "  exception: %r" % exc if exc is not None else ""))
    if got != exp:
        print("VIOLATION property=%s replay=%s" % (PID, path))
        return 1
    print("case now decodes to the expected bytes")
    return 0
