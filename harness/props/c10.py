"""C10 - decryption: either password opens the document to exactly the original content.

TLC decides PlainExactlyOnce / EitherPasswordOpens / OthersRejected / PermissionsAsStored / KeyPerObject on
specs/crypt/Crypt.tla, once for the intended design (Dev = {}) and once as coded (Dev = the deviations listed as
known findings), over every configuration x password pair x tried password x item location.

A. every terminal state of the as-coded run is realised: an independent reference encryptor
   (harness/realise/encryptor.py, self-checked against the repository's encrypted samples and base.pdf) writes the
   configuration as a real PDF holding every item location; the real library opens it with each tried password and
   the harness compares outcome class, permission flags, every string, every stream, and the extracted text with
   the unencrypted original.
B. decrypt-call traces (handler.decrypt / decipher_all / PDFStream.decode) recorded on large random documents and
   on the repository's encrypted samples are validated by TLC against specs/crypt/CryptTrace.tla: every encrypted
   item decrypted exactly once, keyed by its object's number and generation, before it is observed.
"""
from __future__ import annotations

import io
import json
import multiprocessing
import os
import random
import threading
import time

from ..core import unjson
from ..deviations import active, tla_set
from ..tlc import MachineryError, SPECS, require_coverage, run_tlc, write_cfg
from ..realise import encryptor as E
from ..realise.cryptdoc import PASSWORDS, CryptDoc, big_doc
from ..observe import cryptrun as R

SPEC = os.path.join(SPECS, "crypt", "MC_Crypt.tla")
TRACE_SPEC = os.path.join(SPECS, "crypt", "CryptTrace.tla")
INVARIANTS = ["PlainExactlyOnce", "EitherPasswordOpens", "OthersRejected", "PermissionsAsStored", "KeyPerObject",
              "DecodeAfterSetObjid", "BlameSound"]
ACTIONS = ["ASelectHandler", "AEncodePassword", "AAuthUser", "AAuthOwner", "AAuthOwner5", "AAuthUser5", "AReject",
           "AOpen", "AObserveTrailer", "AGetObjCached", "AParseBody", "ADecipherAll", "ASetObjid", "AStreamDecode",
           "AFilters", "AParseObjStm"]

SPACES = {
    "quick": [("auth", "AuthQuick", "PairsQuick", "AllTried", "CanonItem"),
              ("dict", "AllDictCfg", "CanonPair", "DictTried", "CanonItem"),
              ("size", "SizeCfgQuick", "CanonPair", "SizeTried", "AllItems"),
              ("content", "ContentQuick", "CanonPair", "OpenTried", "AllItems")],
    "thorough": [("auth", "AuthFull", "PairsQuick", "AllTried", "CanonItem"),
                 ("dict", "AllDictCfg", "CanonPair", "DictTried", "CanonItem"),
                 ("size", "SizeCfgFull", "CanonPair", "SizeTried", "AllItems"),
                 ("authpw", "AuthPw", "PairsFull", "AllTried", "CanonItem"),
                 ("content", "ContentFull", "CanonPair", "OpenTried", "AllItems"),
                 ("mixed", "MixedCfg", "MixedPairs", "MixedTried", "AllItems")],
}
PERM_ORDER = ("print", "modify", "extract")


_reported = {}


def report(ck, key, what, case=None):
    """ck.violation with a cap on replay files per key (a broken tree yields thousands of identical reports)"""
    if not ck.is_known(key):
        _reported[key] = _reported.get(key, 0) + 1
        if _reported[key] > 40:
            ck.extra["violation_reports_suppressed"] = ck.extra.get("violation_reports_suppressed", 0) + 1
            return True
    return ck.violation(key, what, case)


# ---------------------------------------------------------------------------------------------- keys
def cfg_key(c):
    return (c["V"], c["R"], c["keylen"], c["cfm"], bool(c["em"]), tuple(sorted(c["perms"])), c["id"], c["form"], c["encplace"],
            c.get("dv", "plain"))


def alg_key(c):
    """the part of a configuration an item's fate depends on"""
    return (c["V"], c["R"], c["keylen"], c["cfm"], bool(c["em"]), c["form"], c["encplace"], c.get("dv", "plain"))


def item_key(it):
    return (it["loc"], it["kind"], it["type"], it["n"], it["g"], it["len"], it["filt"], it["nest"])


def real_item_key(it):
    if it["kind"] in ("string", "atom"):
        return (it["loc"], it["kind"], it["type"], it["objid"], it["gen"], len(it["plain"]), "-", len(it["path"]) - 1)
    return (it["loc"], "stream", it["type"], it["objid"], it["gen"], len(it["plain"]), it["filt"], 0)


def model_class(r):
    if r["enc"] == 0 and r["spur"] == 0:
        return "padded" if r["pad"] else "plain"
    if r["enc"] == 1 and r["spur"] == 0 and not r["pad"]:
        return "cipher"
    return "garbage"


def alg_name(c):
    if c["V"] in (1, 2):
        return "RC4"
    return {"V2": "RC4", "AESV2": "AES128", "AESV3": "AES256"}.get(c["cfm"], "ID")


def mk_cfg(c, u, o):
    d = dict(c)
    d["cfm"] = None if c["cfm"] == "none" else c["cfm"]
    d["perms"] = tuple(sorted(c["perms"]))
    d["upw"], d["opw"] = u, o
    return d


# ---------------------------------------------------------------------------------------------- one document
def ref_opens(R_, u, o, t):
    """independent of the model: the encryptor's own password preparation"""
    try:
        p = E.prepare_password(R_, PASSWORDS[t])
    except E.Unencodable:
        return False
    return p in (E.prepare_password(R_, PASSWORDS[u]), E.prepare_password(R_, PASSWORDS[u if o == "same" else o]))


def run_doc(job):
    """(cfg, u, o, trieds, variant) -> observations of the real library on the realised document"""
    c, u, o, trieds, variant = job
    from pdfminer.high_level import extract_text
    from pdfminer.pdftypes import resolve1
    cfg = mk_cfg(c, u, o)
    cfg.update(variant)
    cd = CryptDoc(cfg)
    orig = cd.original()
    data, sec, log = cd.encrypted()
    # the original, read by the same library, must be what the generator meant (else the realiser is broken)
    st, odoc = R.open_doc(orig, "")
    if st != "opened":
        return {"machinery": "original does not open: " + st}
    ocls = R.observe_items(odoc, cd.items, lambda it: None)
    if any(x != "plain" for x in ocls):
        bad = [real_item_key(it) for it, x in zip(cd.items, ocls) if x != "plain"][:3]
        return {"machinery": "unencrypted original is not read back as generated: %r" % (bad,)}
    try:
        otext = extract_text(io.BytesIO(orig))
    except Exception as e:
        return {"machinery": "original: extract_text raised " + type(e).__name__}
    bystr, bystm = {}, {}
    for (n, g, kind, plain, cipher) in log:
        if kind == "string":
            bystr[(n, plain)] = cipher
        else:
            bystm[n] = cipher

    def cipher_of(it):
        if it["kind"] == "string":
            return bystr.get((it["objid"], it["plain"]))
        return bystm.get(it["objid"])
    keys = [real_item_key(it) for it in cd.items]
    out = {"keys": keys, "tried": {}, "size": len(data), "nlog": len(log)}
    for t in trieds:
        pw = PASSWORDS[t]
        st, doc = R.open_doc(data, pw)
        r = {"out": st}
        if doc is not None:
            r["perms"] = [p for p, f in zip(PERM_ORDER, (doc.is_printable, doc.is_modifiable, doc.is_extractable)) if f]
            r["classes"] = R.observe_items(doc, cd.items, cipher_of)
            # trailer / Encrypt dictionary / cross-reference stream
            extra = {}
            try:
                tr = doc.xrefs[0].get_trailer()
                extra[("trailer", "string", "note", 0, 0, 16, "-", 0)] = R.classify(tr.get("VerifNote"), cd.trailer_note, None)
                if cfg["id"] == "present":
                    ids = resolve1(tr["ID"])
                    ok = list(ids) == cd.id_pair
                    extra[("trailer", "string", "id", 0, 0, 16, "-", 0)] = "plain" if ok else "garbage"
                if cfg["encplace"] == "direct":
                    ed = resolve1(tr["Encrypt"])
                    ok = ed["O"] == sec.O and ed["U"] == sec.U
                    extra[("trailer", "string", "encrypt", 0, 0, 16, "-", 0)] = "plain" if ok else "garbage"
                else:
                    ed = doc.getobj(cd.encrypt_objid)
                    ok = ed["O"] == sec.O and ed["U"] == sec.U
                    extra[("encdict", "string", "encrypt", cd.encrypt_objid, 0, 32, "-", 0)] = "plain" if ok else "garbage"
                if cfg["form"] in ("xrefstm", "xrefstmw0", "xrefstm0w", "hybrid"):
                    try:
                        xd = doc.getobj(cd.xref_id).get_data()
                        ok = xd == next(x.data for x in doc.xrefs if getattr(x, "data", None) is not None)
                    except Exception:
                        ok = False
                    extra[("xrefstm", "stream", "XRef", cd.xref_id, 0, 99, "flate", 0)] = "plain" if ok else "garbage"
            except Exception as e:
                extra[("trailer", "string", "note", 0, 0, 16, "-", 0)] = "exc:" + type(e).__name__
            r["extra"] = extra
            try:
                r["text"] = extract_text(io.BytesIO(data), password=pw) == otext
            except Exception as e:
                r["text"] = "exc:" + type(e).__name__
        out["tried"][t] = r
    return out


# ---------------------------------------------------------------------------------------------- TLC
def tlc_space(ck, name, consts, dev, emit, results, idx):
    devsets = "{{}, %s}" % tla_set(dev) if dev else "{{}}"
    cfg = write_cfg(os.path.join(ck.tmp, "c10_%s.cfg" % name),
                    constants={"DevSets": devsets, "Configs": "<- " + consts[0], "PwPairs": "<- " + consts[1],
                               "Tried": "<- " + consts[2], "Items": "<- " + consts[3]},
                    invariants=INVARIANTS, constraints=["EmitTerminal"])
    try:
        res = run_tlc(SPEC, cfg, emit=emit, coverage=True, workers=8, timeout=3600, allow_violation=False)
    except BaseException as e:          # re-raised in the main thread
        results[idx] = e
        return
    results[idx] = res


def direction_a(ck, dev):
    spaces = SPACES[ck.tier]
    # TLC: one run per space explores the intended design (Dev = {}) and the machine as coded (Dev = the known
    # deviations) side by side; all invariants are checked on both, terminal states of the as-coded machine are printed
    results = [None] * len(spaces)
    threads = []
    emits = []
    for i, (name, *consts) in enumerate(spaces):
        emit = os.path.join(ck.tmp, "c10_%s.ndjson" % name)
        emits.append(emit)
        th = threading.Thread(target=tlc_space, args=(ck, name, consts, dev, emit, results, i))
        th.start()
        threads.append(th)
    for th in threads:
        th.join()
    for r in results:
        if isinstance(r, BaseException):
            raise r
    for i, (name, *consts) in enumerate(spaces):
        ck.add_tlc(results[i], "%s space: intended design (Dev = {}, invariants without excuses) and as coded (Dev = %s, "
                               "invariants up to the named deviations)" % (name, sorted(dev)))
        need = [a for a in ACTIONS if not ((name.startswith("auth") or name == "dict") and a in ("AObserveTrailer", "AGetObjCached", "ASetObjid",
                                                                    "AStreamDecode", "AFilters", "AParseObjStm"))
                and not (name == "content" and a == "AReject")]
        if name == "size":
            need = ["ASelectHandler", "AEncodePassword", "AAuthUser", "AOpen", "AParseBody", "ADecipherAll", "ASetObjid",
                    "AStreamDecode", "AFilters"]
        require_coverage(results[i], need)
    # predictions
    pred = {}        # (cfg_key, u, o) -> {tried: {item_key: record}}
    by_alg = {}      # (alg_key, item_key) -> (class, blame)   (independent of passwords / P / ID)
    docs = {}
    n_emitted = 0
    for emit in emits:
        with open(emit) as f:
            for line in f:
                r = json.loads(line)
                n_emitted += 1
                dk = (cfg_key(r["c"]), r["u"], r["o"])
                docs.setdefault(dk, r["c"])
                ik = item_key(r["it"])
                pred.setdefault(dk, {}).setdefault(r["t"], {})[ik] = r
                if r["out"] == "opened":
                    v = (model_class(r), tuple(sorted(r["bl"])))
                    old = by_alg.setdefault((alg_key(r["c"]), ik), v)
                    if old != v:
                        raise MachineryError("model: an item's fate depends on passwords/P/ID: %r %r vs %r" % (ik, old, v))
        os.remove(emit)
    if n_emitted != sum(r.emitted for r in results) or n_emitted == 0:
        raise MachineryError("emitted terminal states lost: %d read" % n_emitted)
    # realise
    jobs = []
    for dk, c in sorted(docs.items(), key=lambda kv: repr(kv[0])):
        trieds = sorted(pred[dk])
        variant = {}
        if ck.tier == "thorough" or (hash(repr(dk)) & 3) == 0:
            # representation variants outside the model: P written as an unsigned number; /Length omitted when 40
            variant = {"punsigned": (len(repr(dk)) & 1) == 0, "length_entry": c["keylen"] != 40 or (len(repr(dk)) & 2) == 0}
        jobs.append((c, dk[1], dk[2], trieds, variant))
    # the documents of the size dimension take long (the library's RC4 is pure Python): start them first
    jobs.sort(key=lambda j: 0 if j[0].get("dv") in ("big", "huge") else 1)
    t0 = time.time()
    nproc = min(14, os.cpu_count() or 2)
    with multiprocessing.get_context("fork").Pool(nproc) as pool:
        outs = pool.map(run_doc, jobs, chunksize=1)
    ck.extra["documents_realised"] = len(jobs)
    ck.extra["realise_and_open_wall_s"] = round(time.time() - t0, 1)
    drift = 0
    replayed = 0
    opens = 0
    model_keys_seen = set()
    real_keys_seen = set()
    for (c, u, o, trieds, variant), res in zip(jobs, outs):
        if "machinery" in res:
            raise MachineryError("realiser: %s (cfg %r)" % (res["machinery"], (c, u, o)))
        dk = (cfg_key(c), u, o)
        ak = alg_key(c)
        alg = alg_name(c)
        base_case = {"cfg": c, "upw": u, "opw": o, "variant": variant}
        for t in trieds:
            rr = res["tried"][t]
            p_any = next(iter(pred[dk][t].values()))
            ro = ref_opens(c["R"], u, o, t)
            if ro != p_any["ro"]:
                raise MachineryError("the model's password preparation and the reference encryptor's disagree: R=%s %s/%s tried %s"
                                     % (c["R"], u, o, t))
            opens += 1
            expected = "opened" if ro else "PDFPasswordIncorrect"
            case = dict(base_case, tried=t, expected_outcome=expected, observed_outcome=rr["out"])
            ck.case(1, ("auth", dk, t) if t != u else None)
            if rr["out"] != p_any["out"]:
                drift += 1
                if drift <= 5:
                    ck.note("model/code drift: cfg %r pw %s/%s tried %s: code %s, as-coded model %s" % (ak, u, o, t, rr["out"], p_any["out"]))
            if rr["out"] != expected:
                if rr["out"] == p_any["out"] and p_any["bl"]:
                    report(ck, "dev:" + "+".join(sorted(p_any["bl"])),
                                 "R%s: password class %r: %s instead of %s" % (c["R"], t, rr["out"], expected), case)
                else:
                    report(ck, "auth:R%s:%s:%s" % (c["R"], "should-open" if ro else "should-reject", rr["out"]),
                                 "V%s R%s %s-bit %s: user/owner %s/%s, tried %r (%r): %s, expected %s"
                                 % (c["V"], c["R"], c["keylen"], c["cfm"], u, o, t, PASSWORDS[t][:20], rr["out"], expected), case)
            if rr["out"] != "opened":
                replayed += len(pred[dk][t])
                continue
            # permissions as stored
            if sorted(rr["perms"]) != sorted(c["perms"]):
                report(ck, "perms", "permissions reported %r, stored %r (P variant %r)" % (rr["perms"], sorted(c["perms"]), variant),
                             dict(case, observed_perms=rr["perms"]))
            if not ro:
                continue
            # every item
            observed = dict(zip(res["keys"], rr["classes"]))
            # several real items may share one model item (same location, length, depth): keep the worst
            for k, cl in zip(res["keys"], rr["classes"]):
                if cl != "plain":
                    observed[k] = cl
            observed.update(rr["extra"])
            for k, cl in observed.items():
                real_keys_seen.add(k)
                gated = k[0] not in ("encdict", "xrefstm")
                m = pred[dk][t].get(k)
                if m is not None:
                    replayed += 1
                    model_keys_seen.add(k)
                    mcl, mbl = model_class(m), tuple(sorted(m["bl"]))
                else:
                    mcl, mbl = by_alg.get((ak, k), (None, ()))
                layered = gated and alg != "ID" and k[0] in ("direct", "streamdict", "streamdata", "metadata", "objstm")
                ck.case(1, ("item", ak, k) if layered else None)
                if mcl is not None and cl != mcl:
                    drift += 1
                    if drift <= 5:
                        ck.note("model/code drift: cfg %r item %r: code %s, as-coded model %s" % (ak, k, cl, mcl))
                if cl != "plain" and gated:
                    icase = dict(case, item=list(k), observed=cl, model=mcl)
                    if cl == mcl and mbl:
                        report(ck, "dev:" + "+".join(mbl), "%s %s in %s read back as %s" % (alg, k[1], k[0], cl), icase)
                    else:
                        report(ck, "item:%s:%s:%s:%s" % (k[0], k[1], alg, cl),
                                     "V%s R%s %s: %s at %s (object %s gen %s, %d bytes) read back as %s with password class %r"
                                     % (c["V"], c["R"], alg, k[1], k[0], k[3], k[4], k[5], cl, t), icase)
            if rr["text"] is not True:
                report(ck, "text:%s:%s" % (alg, rr["text"]), "extracted text differs from the original's (V%s R%s %s, password class %r)"
                             % (c["V"], c["R"], alg, t), dict(case, observed_text=rr["text"]))
            ck.case(1, None)
        if len(ck.samples) < 4 and (u, o) == ("a", "b"):
            t = "a" if "a" in trieds else trieds[0]
            ck.sample({"configuration": c, "user/owner password classes": [u, o], "pdf_bytes": res["size"],
                       "items_encrypted_by_writer": res["nlog"],
                       "outcomes": {t: res["tried"][t]["out"] for t in trieds},
                       "item_classes": dict(sorted(__import__("collections").Counter(
                           (res["tried"][t].get("classes") or [])).items())) if res["tried"][t].get("classes") else None})
    # the model's item universe and the realised documents must cover each other
    want = set()
    for dk in pred:
        for t in pred[dk]:
            for k, m in pred[dk][t].items():
                if m["out"] == "opened" and m["ro"]:
                    want.add(k)
    missing = want - real_keys_seen
    if missing:
        raise MachineryError("model items with no realised counterpart: %r" % sorted(missing)[:5])
    ck.replayed += replayed
    ck.extra["opens"] = opens
    ck.extra["model_code_drift"] = drift
    if drift:
        ck.note("%d observations where the real code and the as-coded model disagree (spec/code drift)" % drift)


# ---------------------------------------------------------------------------------------------- two documents
TWO_SPEC = os.path.join(SPECS, "crypt", "MC_CryptTwo.tla")
TWO_ITEMS = {"str": (10, ("S5",)), "stm": (102, ("<data>",))}
TWO_PW = {"A": ("a", "b", 1), "B": ("L", "n", 2)}          # user, owner password class, seed (different keys)


def two_cfg(kind, role, idx):
    V = kind["V"]
    c = {"V": V, "R": {2: 3, 4: 4, 5: 6 if idx % 2 else 5}[V], "keylen": {2: 128, 4: 128, 5: 256}[V],
         "cfm": {"RC4": None if V == 2 else "V2", "AES128": "AESV2", "AES256": "AESV3"}[kind["alg"]], "em": True,
         "perms": ("print",), "id": "present", "form": "table", "encplace": "indirect" if role == "B" else "direct",
         "dv": "alt" if kind["fname"] == "VerifCF" else "plain", "upw": TWO_PW[role][0], "opw": TWO_PW[role][1]}
    return c


def run_two(job):
    """(kind A, kind B, [histories]) -> list of (history index, doc, obj, observed class) that are not the document's plaintext"""
    kinds, hists, idx = job
    data, plain = {}, {}
    for role in ("A", "B"):
        cd = CryptDoc(two_cfg(kinds[role], role, idx), seed=TWO_PW[role][2])
        data[role] = cd.encrypted()[0]
        plain[role] = {o: next(it["plain"] for it in cd.items if it["objid"] == n and it["path"] == p) for o, (n, p) in TWO_ITEMS.items()}
    bad = []
    for hi, h in enumerate(hists):
        docs = {}
        for (act, d, o) in h:
            if act == "open":
                # alternate between the user and the owner password
                st, doc = R.open_doc(data[d], PASSWORDS[TWO_PW[d][hi % 2]])
                if doc is None:
                    bad.append((hi, d, "open", st))
                    break
                docs[d] = doc
            else:
                n, p = TWO_ITEMS[o]
                try:
                    got = R.nav(docs[d], n, p)
                except Exception as e:
                    got = "exc:" + type(e).__name__
                cl = R.classify(got, plain[d][o], None)
                if cl != "plain":
                    bad.append((hi, d, o, cl))
    return bad


def direction_two(ck):
    """two documents open at the same time: every interleaving TLC enumerates on CryptTwo.tla, on real documents"""
    kinds = "KindsQuick" if ck.tier == "quick" else "KindsFull"
    cfg = write_cfg(os.path.join(ck.tmp, "c10_two.cfg"), constants={"Dev": "<- NoDev", "Kinds": "<- " + kinds},
                    invariants=["OwnPlaintext", "TablePerDocument"], constraints=["EmitTerminal"])
    emit = os.path.join(ck.tmp, "c10_two.ndjson")
    res = run_tlc(TWO_SPEC, cfg, emit=emit, coverage=True, workers=4, timeout=1800, allow_violation=False)
    ck.add_tlc(res, "two documents open at once: every pair of document kinds x every interleaving of Open/Read")
    require_coverage(res, ["Open", "Read"])
    groups = {}
    for line in open(emit):
        r = json.loads(line)
        key = json.dumps(r["k"], sort_keys=True)
        groups.setdefault(key, (r["k"], []))[1].append([tuple(x) for x in r["h"]])
    os.remove(emit)
    if not groups or sum(len(g[1]) for g in groups.values()) != res.emitted:
        raise MachineryError("two-document behaviours lost")
    jobs = [(k, hs, i) for i, (k, hs) in enumerate(sorted(groups.values(), key=lambda g: json.dumps(g[0], sort_keys=True)))]
    with multiprocessing.get_context("fork").Pool(min(12, os.cpu_count() or 2)) as pool:
        outs = pool.map(run_two, jobs)
    n = 0
    for (k, hs, i), bad in zip(jobs, outs):
        n += len(hs)
        ck.case(len(hs), ("two", json.dumps(k, sort_keys=True)))
        for (hi, d, o, cl) in bad:
            other = "B" if d == "A" else "A"
            report(ck, "two:%s:%s" % (o, cl), "two documents open (%s: V%s %s filter %s; %s: V%s %s filter %s): after %s, %s of document %s "
                   "is read back as %s instead of its own plaintext"
                   % (d, k[d]["V"], k[d]["alg"], k[d]["fname"], other, k[other]["V"], k[other]["alg"], k[other]["fname"],
                      " ".join("%s(%s%s)" % (a, dd, "" if oo == "-" else "," + oo) for a, dd, oo in hs[hi]), o, d, cl),
                   {"two": True, "kinds": k, "history": [list(x) for x in hs[hi]], "index": i})
    ck.replayed += n
    ck.extra["two_document_interleavings_replayed"] = n
    if len(ck.samples) < 8:
        k, hs, i = jobs[-1]
        ck.sample({"two documents": k, "interleaving": [list(x) for x in hs[len(hs) // 2]], "observed": "every read is the document's own plaintext"})


# ---------------------------------------------------------------------------------------------- direction B
def record_trace(name, data, password, sec):
    """-> (trace dict, value findings)"""
    alg, V, em = sec.alg, sec.V, sec.encrypt_metadata
    objs, rawdoc, _ = R.raw_objects(data, sec)
    walk_ids = [o["n"] for o in objs if o["home"] in ("body", "objstm")]
    with R.Recorder() as rec:
        st, doc = R.open_doc(data, password)
        if doc is None:
            return None, [("open", st)]
        seen = R.walk_observe(doc, walk_ids, rec)
    events = [e for e in rec.events]
    return {"name": name, "V": V, "alg": alg, "em": em, "objs": objs, "events": events}, (objs, rawdoc, seen)


def value_check(ck, name, objs, rawdoc, seen, sec, alg):
    """compare what the library returned with the reference decryption of the raw objects"""
    from pdfminer.pdftypes import PDFStream
    raw = R.walk_observe(rawdoc, [o["n"] for o in objs if o["home"] in ("body", "objstm")], raw=True)
    byn = {o["n"]: o for o in objs}
    for n, vals in seen.items():
        o = byn[n]
        rv = raw[n]
        if len(rv) != len(vals):
            report(ck, "b:shape", "%s: object %d has %d values decrypted, %d raw" % (name, n, len(vals), len(rv)), {"name": name, "objid": n})
            continue
        for (tag, got), (rtag, rawv) in zip(vals, rv):
            if tag == "stream":
                stm = rawdoc.getobj(n)
                rawbytes = rawv
                if rawbytes is None:
                    raise MachineryError("raw stream data of object %d no longer available" % n)
                if o["home"] == "body" and alg != "ID" and not (o["ty"] == "Metadata" and sec.V >= 4 and not sec.encrypt_metadata):
                    try:
                        plain_raw = sec.decrypt(n, o["g"], rawbytes)
                    except ValueError:
                        continue
                else:
                    plain_raw = rawbytes
                try:
                    exp = PDFStream(dict(stm.attrs), plain_raw).get_data()
                except Exception:
                    continue
                cl = R.classify(got, exp, None)
                ck.case(1, ("b", name, n, "stream"))
            elif tag in ("s", "d"):
                if o["home"] == "body" and alg != "ID" and rawv:
                    try:
                        exp = sec.decrypt(n, o["g"], rawv)
                    except ValueError:
                        continue
                else:
                    exp = rawv
                cl = R.classify(got, exp, rawv)
                ck.case(1, ("b", name, n, tag, len(rawv)))
            else:
                continue
            if cl == "plain":
                continue
            case = {"name": name, "objid": n, "gen": o["g"], "kind": tag, "observed": cl}
            if cl == "padded" and alg.startswith("AES"):
                report(ck, "dev:AESKeepsPadding", "%s: %s of object %d read back with padding" % (name, tag, n), case)
            elif tag == "d" and cl == "cipher":
                report(ck, "dev:StreamDictNotDeciphered", "%s: stream-dictionary string of object %d left encrypted" % (name, n), case)
            else:
                report(ck, "b:%s:%s:%s" % (tag, alg, cl), "%s: %s of object %d (gen %d) read back as %s" % (name, tag, n, o["g"], cl), case)


def sample_traces(ck):
    out = []
    for fn, (upw, opw) in sorted(E.SAMPLE_PW.items()):
        data = open(os.path.join(E.SAMPLES, fn), "rb").read()
        for pw in (upw, opw):
            if pw is None:
                continue
            _, enc, id0 = E.raw_document(data)
            sec = E.StdSec.from_dict(enc, id0, pw)
            if sec is None:
                raise MachineryError("reference cannot authenticate sample " + fn)
            tr, rest = record_trace("sample:%s:%s" % (fn, pw), data, pw, sec)
            if tr is None:
                report(ck, "b:open:" + rest[0][1], "sample %s does not open with %r: %s" % (fn, pw, rest[0][1]), {"sample": fn, "password": pw})
                continue
            value_check(ck, tr["name"], *rest, sec, sec.alg)
            out.append(tr)
    return out


def big_traces(ck, rng, count):
    out = []
    for i in range(count):
        data, sec, info = big_doc(rng, i)
        pw = info["user_pw"] if rng.random() < 0.5 else info["owner_pw"]
        name = "big:%d:V%dR%d:%s:%s:%dobj" % (i, sec.V, sec.R, sec.alg, info["form"], info["nobj"])
        tr, rest = record_trace(name, data, pw, sec)
        if tr is None:
            report(ck, "b:open:" + rest[0][1], "generated document %s does not open with its own password: %s" % (name, rest[0][1]),
                         {"name": name, "seed": ck.seed, "index": i})
            continue
        if sec.alg != "ID":
            # the writer's own count of encrypted items must equal what the declaration (read back from the file) implies
            exempt = sec.V >= 4 and not sec.encrypt_metadata
            n_decl = sum(len([x for x in o["s"] if x]) + len([x for x in o["d"] if x])
                         + (1 if o["sl"] > 0 and not (o["ty"] == "Metadata" and exempt) else 0)
                         for o in tr["objs"] if o["home"] == "body")
            if info["nenc"] != n_decl:
                raise MachineryError("%s: writer encrypted %d items, declaration implies %d" % (name, info["nenc"], n_decl))
        value_check(ck, name, *rest, sec, sec.alg)
        out.append(tr)
        if len(ck.samples) < 7:
            ck.sample({"trace": name, "objects": len(tr["objs"]), "events": len(tr["events"]),
                       "first_events": tr["events"][:4]})
    return out


TRACE_DEVS = ("AESKeepsPadding", "StreamDictNotDeciphered")      # the deviations CryptTrace.tla knows about


def run_trace_spec(ck, traces, dev, label, tag=""):
    """one TLC run over a batch of traces -> list of verdict dicts {ok, i, shape}, one per trace"""
    cfg = write_cfg(os.path.join(ck.tmp, "c10_trace%s.cfg" % tag), constants={"Dev": tla_set(dev) if dev else "{}"},
                    spec="Spec", invariants=["RemWithinWritten"], deadlock=True)
    tf = os.path.join(ck.tmp, "c10_traces%s.json" % tag)
    with open(tf, "w") as f:
        json.dump(traces, f)
    emit = os.path.join(ck.tmp, "c10_trace_out%s.ndjson" % tag)
    res = run_tlc(TRACE_SPEC, cfg, workers=1, env={"TRACE_FILE": tf}, timeout=3600, heap="4g", emit=emit,
                  allow_violation=False)
    if label:
        ck.add_tlc(res, label)
    verdicts = {}
    for line in open(emit):
        r = json.loads(line)
        verdicts[r["t"]] = r
    if sorted(verdicts) != list(range(1, len(traces) + 1)):
        raise MachineryError("trace validation did not give a verdict for every trace (%d of %d)" % (len(verdicts), len(traces)))
    return [verdicts[k] for k in range(1, len(traces) + 1)]


def validate_traces(ck, traces, dev, label):
    """-> number accepted.  Traces are validated against the as-coded specification (Dev = the deviations listed as
    known); one that is rejected there is tried against the specification with fewer deviations down to the intended
    design: accepted by one of those = spec/code drift (a listed deviation no longer shows), not a violation."""
    tdev = [d for d in dev if d in TRACE_DEVS]
    verdicts = run_trace_spec(ck, traces, tdev, "trace validation: %d %s, Dev = %s" % (len(traces), label, tdev))
    pending = [k for k, v in enumerate(verdicts) if not v["ok"]]
    final = {k: (v, tdev) for k, v in enumerate(verdicts)}
    drift = 0
    if pending:
        import itertools
        subsets = [list(c) for r in range(len(tdev) - 1, -1, -1) for c in itertools.combinations(tdev, r)]
        for sub in subsets:
            if not pending:
                break
            vs = run_trace_spec(ck, [traces[k] for k in pending], sub,
                                "trace validation: %d traces rejected as coded, retried with Dev = %s" % (len(pending), sub), tag="_r")
            still = []
            for k, v in zip(pending, vs):
                if v["ok"]:
                    final[k] = (v, sub)
                    drift += 1
                else:
                    still.append(k)
            pending = still
    accepted = 0
    shape_drift = 0
    for k, (v, used) in sorted(final.items()):
        tr = traces[k]
        if v["ok"]:
            accepted += 1
            if not v["shape"]:
                shape_drift += 1
                if shape_drift <= 3:
                    ck.note("trace %s accepted, but decipher_all/decode events do not have the modelled shape (non-gating)" % tr["name"])
            continue
        i = v["i"]
        ev = tr["events"][i] if i < len(tr["events"]) else None
        key = "trace:observed-before-decrypted" if ev and ev.get("e") == "obs" else "trace:decrypt-not-enabled"
        report(ck, key, "recorded run %s is not a behaviour of CryptTrace: event #%d %r is not enabled "
                          "(decrypt on something that carries no layer / wrong object key / item still encrypted when observed)"
                     % (tr["name"], i + 1, ev), {"trace": tr["name"], "event_index": i, "event": ev,
                                                 "object": next((o for o in tr["objs"] if ev and o["n"] == ev.get("n")), None)})
    if drift:
        ck.note("%d recorded traces are rejected by the as-coded trace specification but accepted with fewer deviations "
                "(spec/code drift: a deviation listed as known no longer shows)" % drift)
    ck.extra["trace_drift"] = ck.extra.get("trace_drift", 0) + drift
    ck.extra["trace_shape_drift"] = ck.extra.get("trace_shape_drift", 0) + shape_drift
    return accepted


def corrupt_demo(ck, traces, dev):
    """vacuity guard for the trace spec: one corrupted field / one dropped event must be rejected"""
    import copy
    src = next((t for t in traces if any(e["e"] == "dec" and not e["id"] for e in t["events"])), None)
    if src is None:
        raise MachineryError("no trace with a decrypt event to corrupt")
    muts = []
    a = copy.deepcopy(src)
    e = next(e for e in a["events"] if e["e"] == "dec" and not e["id"])
    e["g"] += 1
    muts.append(("generation of one decrypt call +1", a))
    b = copy.deepcopy(src)
    k = next(i for i, e in enumerate(b["events"]) if e["e"] == "dec" and not e["id"])
    del b["events"][k]
    muts.append(("one decrypt call dropped", b))
    c = copy.deepcopy(src)
    k = next(i for i, e in enumerate(c["events"]) if e["e"] == "dec" and not e["id"])
    c["events"].insert(k, dict(c["events"][k]))
    muts.append(("one decrypt call duplicated", c))
    tdev = [d for d in dev if d in TRACE_DEVS]
    vs = run_trace_spec(ck, [src] + [m[1] for m in muts], tdev, None, tag="_c")
    if not vs[0]["ok"]:
        return          # the source trace itself is not accepted (reported by validate_traces): nothing to demonstrate
    caught = []
    for (what, _), v in zip(muts, vs[1:]):
        if v["ok"]:
            raise MachineryError("trace spec is vacuous: corrupted trace (%s) was accepted" % what)
        caught.append(what)
    ck.extra["corrupted_traces_rejected"] = caught


def direction_b(ck, dev):
    rng = random.Random(ck.seed + 10)
    traces = sample_traces(ck)
    ns = len(traces)
    traces += big_traces(ck, rng, 12 if ck.tier == "quick" else 200)
    ck.extra["trace_events"] = sum(len(t["events"]) for t in traces)
    ck.extra["trace_objects"] = sum(len(t["objs"]) for t in traces)
    acc = validate_traces(ck, traces, dev, "decrypt-call traces (%d repository samples x passwords, %d generated documents)" % (ns, len(traces) - ns))
    ck.traces += acc
    corrupt_demo(ck, traces, dev)


def run(ck):
    try:
        n = E.self_check()
    except MachineryError:
        raise
    except Exception as e:
        raise MachineryError("reference encryptor self-check crashed: %r" % (e,))
    ck.extra["reference_encryptor_self_check"] = "ok: own round trips for R2-R6; %s strings/streams of the 8 encrypted " \
                                                 "repository samples decrypted by the reference and equal to base.pdf" % n
    dev = active("crypt")
    ck.extra["deviations_modelled_as_coded"] = dev
    ck.rule = ("A: TLC enumerates (configuration V/R/key length/crypt filter/EncryptMetadata/P/ID/physical form/Encrypt placement) x "
               "(user, owner password class) x tried password class x item location; every terminal state is realised as a real "
               "encrypted PDF and replayed.  A case = one (document, tried password) outcome or one (document, password, item) "
               "read-back; non-trivial = the tried password is not literally the user password, or the item carries an encryption "
               "layer in that configuration; distinct by (configuration, passwords) resp. (cipher configuration, item).  "
               "B: one case per string/stream read back from the repository samples and from large random documents.")
    ck.assumptions = ["RC4/AES/MD5/SHA-2 are trusted primitives (modelled as perfect, uninterpreted); key schedules are bound only by "
                      "interoperation with the independent reference encryptor, itself validated on the repository samples against base.pdf",
                      "PDFDocEncoding is exercised on Latin-1 characters only; R5 passwords are not SASLprep-sensitive (the Adobe "
                      "supplement is read as UTF-8 only, conservatively)",
                      "caching=True (the default); per-stream /Crypt filters, StmF != StrF, public-key handlers are outside the model"]
    direction_a(ck, dev)
    direction_two(ck)
    direction_b(ck, dev)
    ck.exhaustive = True


def replay(path):
    doc = json.load(open(path))
    case = unjson(doc["case"])
    if case.get("two"):
        bad = run_two((case["kinds"], [[tuple(x) for x in case["history"]]], case.get("index", 0)))
        print("history %s -> %s" % (case["history"], bad or "every read is the document's own plaintext"))
        if bad:
            print("VIOLATION property=C10 replay=%s" % path)
        return 1 if bad else 0
    if "cfg" not in case:
        print("replay file has no realisable configuration (trace finding): %s" % doc.get("what"))
        return 1
    c = case["cfg"]
    t = case["tried"]
    res = run_doc((c, case["upw"], case["opw"], [t], case.get("variant") or {}))
    if "machinery" in res:
        raise MachineryError(res["machinery"])
    r = res["tried"][t]
    ro = ref_opens(c["R"], case["upw"], case["opw"], t)
    print("configuration %r passwords %s/%s tried %s -> %s (expected %s)" % (c, case["upw"], case["opw"], t, r["out"],
                                                                          "opened" if ro else "PDFPasswordIncorrect"))
    bad = r["out"] != ("opened" if ro else "PDFPasswordIncorrect")
    if r["out"] == "opened":
        print("permissions", r["perms"], "stored", sorted(c["perms"]), "text equal:", r["text"])
        bad |= sorted(r["perms"]) != sorted(c["perms"]) or (ro and r["text"] is not True)
        for k, cl in list(zip(res["keys"], r["classes"])) + list(r["extra"].items()):
            if cl != "plain" and k[0] not in ("encdict", "xrefstm"):
                print("  item %r read back as %s" % (k, cl))
                bad |= ro
    if bad:
        print("VIOLATION property=C10 replay=%s" % path)
    return 1 if bad else 0
