"""C13 - damaged input: errors stay in the library's family and work stays bounded.   LEVEL: fault_enumeration

1. specs/robust/Faults.tla is the fault space: the harness describes each structural seed document
   (harness/realise/c13seeds.py) as an abstract seed (sites, payloads, cross-reference entries, file length), TLC
   enumerates every (site, kind) / payload position / truncation point, checks applicability, that every fault
   changes the document, that every kind the property lists is present at every site and that the space has exactly the
   size the per-site arithmetic predicts, and prints each fault.  Every fault (thorough) or a stratified sample drawn
   with VERIF_SEED (quick) is applied to the object graph *before* serialisation (harness/realise/faultdoc.py) and
   extract_text / extract_pages / extract_text_to_fp(xml) run on the bytes under the work meter
   (harness/observe/workmeter.py): outcome must be a return or an exception of the PSException family (or
   AssertionError) within K*len+C executed lines, and no RecursionError may be raised on the way.
2. specs/robust/RefGraph.tla: every reference graph with <= N nodes x every traversal of the library as a machine;
   TLC decides which (graph, traversal) pairs terminate within the bound for the as-coded machine (guards the code has)
   and proves the intended machine (all guards) bounded on all of them; every pair is realised as a document and run
   through the entry points (or the direct API for traversals no entry point reaches) and compared.
3. specs/robust/Accessors.tla: the typed accessors and casting.safe_* as total functions over value kinds; every
   (accessor, kind, STRICT) cell is replayed on the real functions.
Direction B (code -> spec traces) does not apply: the property is about outcomes, not steps.
"""
import collections
import hashlib
import io
import json
import logging
import multiprocessing as mp
import os
import random
import time

logging.disable(logging.CRITICAL)

from ..core import unjson  # noqa: E402
from ..tlc import MachineryError, SPECS, require_coverage, run_tlc, write_cfg  # noqa: E402
from ..observe import faultrun, workmeter  # noqa: E402
from ..realise import c13seeds  # noqa: E402
from ..realise.faultdoc import Fault, assemble, describe  # noqa: E402

LEVEL = "fault_enumeration"
ROBUST = os.path.join(SPECS, "robust")
NPROC = min(16, os.cpu_count() or 4)

# quick tier: entries every traversal / decoder hangs on - all their retype faults are applied, not a sample
IMPORTANT_KEYS = {"DescendantFonts", "Kids", "Contents", "Resources", "Font", "Encoding", "ToUnicode", "W", "Widths",
                  "Length", "Filter", "DecodeParms", "Root", "Pages", "Prev", "XRefStm", "Index", "Encrypt", "ID",
                  "N", "First", "Length1", "Length2", "Length3"}
ELEMENT_PARENTS = {"DW2", "W2", "W", "Widths"}
REF_PARENTS = {"XObject", "Font", "Kids", "Contents", "DescendantFonts"}
IMPORTANT_SITES_PER_ROLE = 1
# quick tier: faults sampled per (seed, class, kind) stratum
QUICK_PER_STRATUM = {"value": 2, "payload": 6, "file": 15, "xrefent": 2, "multi": 2}


# ------------------------------------------------------------------------------------------------ Faults.tla
def tla_str(s):
    return '"' + s.replace("\\", "\\\\").replace('"', '\\"') + '"'


def tla_seed(d):
    sites = ",\n    ".join(
        "[id |-> %s, ownerobj |-> %d, cont |-> %s, base |-> %s, ind |-> %s, cls |-> %s]"
        % (tla_str(s["id"]), s["ownerobj"], tla_str(s["cont"]), tla_str(s["base"]), "TRUE" if s["ind"] else "FALSE",
           tla_str(s["cls"])) for s in d["sites"])
    streams = ", ".join("[id |-> %s, plen |-> %d, hdr |-> %d, fields |-> {%s}]"
                        % (tla_str(t["id"]), t["plen"], t["hdr"], ", ".join("<<%d, %d>>" % tuple(fl) for fl in t["fields"]))
                        for t in d["streams"])
    ents = ", ".join("[id |-> %s, form |-> %s]" % (tla_str(e["id"]), tla_str(e["form"])) for e in d["ents"])
    return "[sites |-> {\n    %s},\n   streams |-> {%s},\n   ents |-> {%s},\n   flen |-> %d, enc |-> %s, fstride |-> %d, nocache |-> %s]" % (
        sites, streams, ents, d["flen"], "TRUE" if d["enc"] else "FALSE", d["fstride"], "TRUE" if d["nocache"] else "FALSE")


def enumerate_faults(ck, descs, variants=(0, 1), pstride=1, fstride=1, coverage=False, label="Faults"):
    body = " @@\n".join("  (%s :> %s)" % (tla_str(d["name"]), tla_seed(d)) for d in descs)
    mc = os.path.join(ck.tmp, "MC_Faults_gen.tla")
    with open(mc, "w") as f:
        f.write("---- MODULE MC_Faults_gen ----\nEXTENDS Faults\nGenSeeds ==\n%s\nGenVariants == {%s}\n====\n"
                % (body, ", ".join(map(str, variants))))
    cfg = write_cfg(os.path.join(ck.tmp, "faults.cfg"),
                    constants={"Seeds": "<- GenSeeds", "Variants": "<- GenVariants", "PayloadStride": pstride,
                               "FileStride": fstride},
                    invariants=["Applicable", "Damaging", "ModeOK", "CountedExactly", "KindsPresent"], constraints=["Emit"])
    emit = os.path.join(ck.tmp, "faults.ndjson")
    res = run_tlc(mc, cfg, emit=emit, coverage=coverage, timeout=1800, allow_violation=False)
    ck.add_tlc(res, label)
    if coverage:
        require_coverage(res, ["APickAnchor", "AApplyFault"])
    anchors = sum(len(d["sites"]) + len(d["streams"]) + len(d["ents"]) + 1 for d in descs)
    if res.distinct != len(descs) + anchors + res.emitted or res.emitted == 0:
        raise MachineryError("Faults.tla: %d distinct states do not add up to %d seeds + %d anchors + %d faults"
                             % (res.distinct, len(descs), anchors, res.emitted))
    faults = []
    with open(emit) as f:
        for line in f:
            r = json.loads(line)
            faults.append((r["seed"], r["f"]))
    os.remove(emit)
    faults.sort(key=lambda x: (x[0], json.dumps(x[1], sort_keys=True)))
    return faults, res


def stratum(fd):
    return (fd["cls"], fd["kind"], fd.get("to", ""), fd.get("mode") == "nocache")


def sample_faults(faults, seed, descs):
    """deterministic stratified sample: per (seed document, class, kind, target) a few faults, plus every retype fault
    at the structurally important entries (IMPORTANT_KEYS).
    Strings that are no ciphertext (rawstr, encrypted seeds) are stratified further - by form, by whether the site
    sits in a directly stored object (only those are deciphered string by string: members of object streams and the
    trailer are not) and by whether the site held a string before - so that every quick run plants short raw strings
    at string-valued and at non-string-valued sites of directly stored objects of every encrypted seed."""
    rng = random.Random(seed)
    direct = {d["name"]: set(d["direct_owners"]) for d in descs}
    base = {d["name"]: {x["id"]: x["base"] for x in d["sites"]} for d in descs}
    groups = collections.OrderedDict()
    out = []
    hdr = {d["name"]: {t["id"]: t["hdr"] for t in d["streams"]} for d in descs}
    late_cuts = {d["name"]: {t["id"]: {t["plen"] - 1, t["plen"] - 2, t["plen"] * 3 // 4} for t in d["streams"] if t["plen"] > 8}
                 for d in descs}
    # important entries: per seed, key and kind of owner (object / object stream / xref stream / trailer - different
    # code reads them) the first IMPORTANT_SITES_PER_ROLE site(s) in file order get the full treatment
    important = set()
    for d in descs:
        per_role = collections.Counter()
        for x in d["sites"]:
            parts = x["id"].split("/")
            key = parts[-1]
            if len(parts) > 2 and parts[-2] in ELEMENT_PARENTS:
                key = parts[-2] + "[]"          # the elements of these arrays are read one by one
            if "/" in x["id"] and (key in IMPORTANT_KEYS or key.endswith("[]")):
                role = (key, x["id"].split(":")[0])
                per_role[role] += 1
                if per_role[role] <= IMPORTANT_SITES_PER_ROLE:
                    important.add((d["name"], x["id"]))
    # entries that hold the references the traversals follow (and the elements / members of such arrays and
    # dictionaries): the reference is pointed at its own object (what that closes - a page tree, form or font cycle -
    # depends on the object), with the caches on and off, at every such site
    cyc_sites = set()
    for d in descs:
        for x in d["sites"]:
            parts = x["id"].split("/")
            if len(parts) >= 2 and (parts[-1] in IMPORTANT_KEYS or (len(parts) > 2 and parts[-2] in REF_PARENTS)):
                cyc_sites.add((d["name"], x["id"]))
    content_sites = {(d["name"], x["id"]) for d in descs for x in d["sites"] if x["cls"] == "content"}
    for s, fd in faults:
        if fd["cls"] == "value" and (s, fd["site"]) in content_sites:
            # entries of dictionaries written inside content streams (inline images, property lists): few, all applied
            out.append((s, fd))
            continue
        if fd["kind"] == "delete" and (s, fd["site"]) in cyc_sites:
            out.append((s, fd))            # every important entry removed
            continue
        if fd["kind"] == "empty" and (s, fd["site"]) in cyc_sites:
            out.append((s, fd))            # the empty array / dictionary / string / name at every important entry
            continue
        if fd["kind"] == "ref_self" and (s, fd["site"]) in cyc_sites:
            out.append((s, fd))
            continue
        if fd["kind"] == "retype" and (s, fd["site"]) in important:
            # structurally important entries: every retype representative (empty and non-empty array / dictionary /
            # string, scalars, each also behind a reference) is applied in every quick run
            out.append((s, fd))
            continue
        if fd["cls"] == "payload" and (fd["kind"] == "setfield" or (fd["kind"] == "truncate" and fd["pos"] < hdr[s].get(fd["site"], 0))):
            # embedded font programs: every cut inside the binary header / table directory, every header field value
            out.append((s, fd))
            continue
        if fd["cls"] == "payload" and fd["kind"] == "truncate" and fd["pos"] in late_cuts[s].get(fd["site"], ()):
            # every payload cut just before its end and at three quarters: nearly everything still decodes (an object
            # stream keeps most of its members), which is where caches keyed on "complete" data stop working
            out.append((s, fd))
            continue
        if fd["kind"] == "ent_in_cycle2":
            out.append((s, fd))        # containment cycles between object streams: few entries, all applied
            continue
        if fd["kind"].startswith("off_"):
            # file positions (startxref, Prev, XRefStm): few sites, every fault and both offset styles in every run
            out.append((s, fd))
            continue
        key = (s,) + stratum(fd)
        if fd["kind"] == "rawstr":
            owner = fd["site"].split("/")[0]
            key += (fd["variant"], owner in direct[s], base[s].get(fd["site"]) == "string")
        groups.setdefault(key, []).append((s, fd))
    for key, g in groups.items():
        k = QUICK_PER_STRATUM[key[1]]
        out.extend(g if len(g) <= k else rng.sample(g, k))
    return out


# ------------------------------------------------------------------------------------------------ the campaign
_SEEDS = None
_BASE = {}


def _init_worker():
    global _SEEDS
    _SEEDS = {s.name: s for s in c13seeds.all_seeds()}
    logging.disable(logging.CRITICAL)


def _digest(x):
    if isinstance(x, str):
        x = x.encode("utf-8", "replace")
    return hashlib.sha1(x or b"").hexdigest()[:10]


def _baseline(name):
    if name not in _BASE:
        data, _ = assemble(_SEEDS[name])
        rs = faultrun.run_all(data)
        for (e, oc, lines, detail) in rs:
            if oc != "ok":
                raise MachineryError("undamaged seed %s: %s gives %s (%s)" % (name, e, oc, detail))
        _BASE[name] = ([_digest(r[3]) for r in rs], [r[2] for r in rs], len(data))
    return _BASE[name]


def _work(chunk):
    """-> list of (seed, fault dict, len(data), [(entry, outcome, lines, detail-or-digest)], observable)"""
    out = []
    for name, fd in chunk:
        f = Fault(fd)
        try:
            base = _baseline(name)
            data, _ = assemble(_SEEDS[name], f)
        except MachineryError as e:
            out.append((name, fd, -1, str(e), False))
            continue
        budgets = None
        if _SEEDS[name].double is not None:
            # a document that is mostly one well-compressed object stream does far more work per input byte than the
            # line budget allows for; its absolute bound is BULK_FACTOR times the work of the undamaged document, and
            # what really decides is the scaling check below
            budgets = [BULK_FACTOR * b for b in base[1]]
        rs = faultrun.run_all(data, caching=not f.nocache, budgets=budgets)
        obs = False
        rows = []
        for i, (e, oc, lines, detail) in enumerate(rs):
            if oc == "ok":
                d = _digest(detail)
                obs = obs or d != base[0][i]
                rows.append((e, oc, lines, d))
            else:
                obs = True
                rows.append((e, oc, lines, detail))
        if _SEEDS[name].double is not None:
            rows.extend(_scaling(name, f, fd, rs))
        out.append((name, fd, len(data), rows, obs))
    return out


BULK_FACTOR = 40
SCALE_FACTOR = 2.5        # work(2n members) must stay below SCALE_FACTOR * work(n members) ...
SCALE_FLOOR = 150_000     # ... once it is above this many lines (small runs are dominated by constants)
_DOUBLE = {}


def _scaling(name, f, fd, rs):
    """the scaling check of a seed that comes in two sizes: the same fault applied to the document with twice as many
    members must not cost more than SCALE_FACTOR times the work - whatever the absolute budget says.  Positions of
    payload faults and file truncations are scaled with the payload / file length."""
    if name not in _DOUBLE:
        big = _SEEDS[name].double()
        d1, l1 = assemble(_SEEDS[name])
        d2, l2 = assemble(big)
        base2 = [r[2] for r in faultrun.run_all(d2)]
        ids = {}
        for owner in ("objstm:0", "xref:0"):          # object numbers the writer assigns differ between the two sizes
            if owner in l1.derived and owner in l2.derived:
                ids[l1.derived[owner][0]] = l2.derived[owner][0]
        _DOUBLE[name] = (big, {k: len(v) for k, v in l1.payloads.items()}, {k: len(v) for k, v in l2.payloads.items()},
                         ids, base2)
    big, p1, p2, ids, base2 = _DOUBLE[name]
    fd2 = dict(fd)
    if fd["cls"] == "file":
        return []            # a cut at "the same" place of a longer file is another fault: not comparable
    if fd["cls"] == "payload":
        a, b = p1.get(fd["site"], 0), p2.get(fd["site"], 0)
        if not (fd["kind"] == "truncate" and fd["site"].startswith("objstm:") and a and b and a - fd["pos"] <= 16):
            # only the object stream cut by a few bytes at its end means the same in both sizes (most members survive);
            # a flipped byte or a cut elsewhere in compressed data destroys a different share of it
            return []
        fd2["pos"] = b - (a - fd["pos"])
    if fd["cls"] == "xrefent":
        k, n = fd["site"].split("/")
        fd2["site"] = "%s/%d" % (k, ids.get(int(n), int(n)))
    f2 = Fault(fd2)
    data2, _ = assemble(big, f2)
    rs2 = faultrun.run_all(data2, caching=not f2.nocache, budgets=[BULK_FACTOR * b for b in base2])
    rows = []
    for (e, oc, lines, _), (e2, oc2, lines2, detail2) in zip(rs, rs2):
        c1, c2 = oc.split(":")[0], oc2.split(":")[0]
        grew = lines2 > SCALE_FACTOR * lines and lines2 > SCALE_FLOOR
        if c1 in ("ok", "family") and (c2 == "hang" or (c2 in ("ok", "family") and grew)):
            # name the place: run again with the budget the linear bound allows
            again = faultrun.run_all(data2, caching=not f2.nocache,
                                     budgets=[max(SCALE_FLOOR, int(SCALE_FACTOR * lines))] * 3)
            site = [r for r in again if r[0] == e2][0][1]
            site = site.split(":", 1)[1] if site.startswith("hang:") else "?:?"
            rows.append((e2 + "@2n", "superlinear:" + site, lines2,
                         "twice the members cost %d lines, %d with the original number (x%.1f)" % (lines2, lines, lines2 / max(lines, 1))))
        elif c2 not in ("ok", "family"):
            rows.append((e2 + "@2n", oc2, lines2, detail2))
    return rows


def campaign(ck, faults, label):
    """run every fault through the three entry points; report defects"""
    t0 = time.time()
    chunks = [faults[i:i + 25] for i in range(0, len(faults), 25)]
    defects = {}          # defect key -> [count, first examples]
    outcomes = collections.Counter()
    worst = (0.0, None)
    n = 0
    sampled = set()
    ctx = mp.get_context("fork")
    with ctx.Pool(NPROC, initializer=_init_worker) as pool:
        for res in pool.imap_unordered(_work, chunks, chunksize=1):
            for (name, fd, dlen, rows, obs) in res:
                if dlen < 0:
                    raise MachineryError("fault %r could not be applied to seed %s: %s" % (fd, name, rows))
                f = Fault(fd)
                n += 1
                ck.case(len(rows), (name, f.key()) if obs else None)
                for (e, oc, lines, detail) in rows:
                    cls = oc.split(":")[0]
                    outcomes[cls] += 1
                    if cls in ("ok", "family"):
                        r = lines / float(faultrun.BUDGET_K * dlen + faultrun.BUDGET_C)
                        if r > worst[0]:
                            worst = (r, (name, f.key(), e, lines, dlen))
                        continue
                    d = defects.setdefault(oc, [0, []])
                    d[0] += 1
                    if len(d[1]) < 3:
                        d[1].append({"seed": name, "fault": fd, "entry": e, "observed": detail, "lines": lines,
                                     "input_bytes": dlen})
                worst_oc = max((oc.split(":")[0] for (_, oc, _, _) in rows), key=["ok", "family", "leak", "recursion", "hang", "superlinear"].index)
                if (fd["cls"], worst_oc) not in sampled and len(sampled) < 8:
                    sampled.add((fd["cls"], worst_oc))
                    ck.sample({"seed": name, "fault": fd, "input_bytes": dlen,
                               "outcomes": [[e, oc, lines] for (e, oc, lines, _) in rows]})
    for key in sorted(defects):
        cnt, exs = defects[key]
        if ck.is_known(key):
            for _ in range(cnt):
                ck.violation(key, "", None)
            continue
        for ex in exs[:2]:
            ck.violation(key, "%s on seed %s damaged by %s: %s (%d such outcomes in this run)"
                         % (ex["entry"], ex["seed"], Fault(ex["fault"]).key(), str(ex["observed"])[:160], cnt), ex)
    ck.extra.setdefault("defects", {}).update({k: v[0] for k, v in sorted(defects.items())})
    ck.extra.setdefault("campaigns", []).append(
        {"label": label, "faults": n, "runs": sum(outcomes.values()), "outcomes": dict(outcomes),
         "defect_keys": len(defects), "wall_s": round(time.time() - t0, 1),
         "costliest_terminating_run": {"fraction_of_budget": round(worst[0], 3), "case": worst[1]}})
    return defects, outcomes


# ------------------------------------------------------------------------------------------------ run
def run(ck):
    workmeter.self_check()
    seeds = c13seeds.all_seeds()
    c13seeds.self_check(seeds)
    thorough = ck.tier == "thorough"
    descs = [describe(s)[0] for s in seeds]
    ck.extra["seeds"] = {d["name"]: {"bytes": d["flen"], "sites": len(d["sites"]), "streams": len(d["streams"]),
                                      "xref_entries": len(d["ents"]), "features": s.features}
                         for d, s in zip(descs, seeds)}
    ck.extra["budget"] = "%d * len(input) + %d executed lines per entry point; CPU time %d s" % (
        faultrun.BUDGET_K, faultrun.BUDGET_C, faultrun.CPU_LIMIT)
    faults, res = enumerate_faults(ck, descs, label="Faults.tla: every (site, kind), payload position, truncation point "
                                                    "of %d seeds" % len(seeds))
    per_seed = collections.Counter(s for s, _ in faults)
    ck.extra["fault_space"] = {"total": len(faults), "per_seed": dict(per_seed),
                               "per_class": dict(collections.Counter(fd["cls"] for _, fd in faults))}
    chosen = faults if thorough else sample_faults(faults, ck.seed, descs)
    ck.extra["faults_applied"] = len(chosen)
    campaign(ck, chosen, "fault campaign (%s)" % ("complete" if thorough else "stratified sample, seed %d" % ck.seed))
    ck.replayed += len(chosen)
    from . import c13_graphs
    c13_graphs.run_accessors(ck)
    c13_graphs.run_refgraph(ck)
    ck.exhaustive = thorough
    ck.rule = ("one evaluation = one entry point run on one damaged document under the work meter.  Faults: every fault "
               "TLC enumerates from Faults.tla for %d structural seeds (thorough) or a per-(seed, class, kind, target) "
               "stratified sample drawn with VERIF_SEED (quick); reference graphs / accessor cells: every one TLC "
               "enumerates (quick: a seeded sample of the graphs).  Non-trivial = the damage is observable: at least "
               "one entry point returns something else than on the undamaged seed or raises." % len(seeds))
    ck.assumptions = [
        "one representative value per replacement kind and variant (REPR in harness/realise/faultdoc.py)",
        "work is measured in executed Python lines (sys.monitoring LINE events); time spent inside C functions is "
        "bounded only by the %d s CPU-time alarm (ITIMER_PROF: user + system time, independent of machine load)" % faultrun.CPU_LIMIT,
        "AssertionError counts as inside the documented family (the repository's fuzz harnesses tolerate it)",
        "encrypted seeds: payload faults are applied to the payload as it stands in the file (ciphertext)",
    ]


def replay(path):
    doc = json.load(open(path))
    case = unjson(doc["case"])
    if case.get("kind") in ("refgraph", "accessor"):
        from . import c13_graphs
        return c13_graphs.replay_case(case, path)
    seeds = {s.name: s for s in c13seeds.all_seeds()}
    f = Fault(case["fault"])
    data, _ = assemble(seeds[case["seed"]], f)
    bad = False
    print("seed %s damaged by %s: %d bytes, budget %d lines" % (case["seed"], f.key(), len(data), faultrun.budget_for(data)))
    for (e, oc, lines, detail) in faultrun.run_all(data, caching=not f.nocache):
        print("  %-24s %-50s %8d lines  %s" % (e, oc, lines, "" if oc == "ok" else str(detail)[:200]))
        bad = bad or oc.split(":")[0] not in ("ok", "family")
    if seeds[case["seed"]].double is not None:
        global _SEEDS
        _SEEDS = seeds
        for (e, oc, lines, detail) in _scaling(case["seed"], f, case["fault"], faultrun.run_all(data, caching=not f.nocache)):
            print("  %-24s %-50s %8d lines  %s" % (e, oc, lines, str(detail)[:200]))
            bad = True
    if bad:
        print("VIOLATION property=C13 replay=%s" % path)
    return 1 if bad else 0
