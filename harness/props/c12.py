"""C12 - extraction is a pure function of (document bytes, options).

TLC  specs/purity/Purity.tla: process-wide tables and caches, per-call resource manager and per-document object cache,
     a pool of documents that share object numbers / resource names / BaseFont names / encodings but differ in content;
     Extract / Open / Next / Close / UseCMap freely interleaved; Functional, CacheKeySound, CMapCacheSound,
     DecipheredOnce, CachedObjectsAsParsed, SharedTablesImmutable, CachesAppendOnly checked in every state / step;
     every dangerous alternative (named deviation switch) must be refuted by TLC.
A.   every schedule TLC enumerates (History = TRUE) is replayed on the realised pool (harness/realise/puritydocs.py) in
     ONE process (several replay processes, each replaying its share back to back without ever resetting anything);
     every page / text / xml result is compared with the result of the same call in a FRESH process, and the fresh
     results among themselves (caching on = off, pages one at a time = all together, two hash seeds).
B.   random histories of public calls over the repository samples (+ generated documents) are recorded in one process
     each, with content summaries of every process-wide table before / after each call; TLC validates the traces
     against specs/purity/PurityTrace.tla (tables immutable / append-only, results = fresh = composed from fresh
     single-page calls, one value per key throughout the history).
"""
import concurrent.futures
import glob
import io
import itertools
import json
import logging
import multiprocessing
import os
import random
import re
import time

logging.disable(logging.CRITICAL)

from ..core import unjson  # noqa: E402
from ..deviations import active, tla_set  # noqa: E402
from ..tlc import MachineryError, SPECS, require_coverage, run_tlc, write_cfg  # noqa: E402
from ..observe import purity as OBS  # noqa: E402
from ..realise import puritydocs as PD  # noqa: E402

SPEC = os.path.join(SPECS, "purity", "MC_Purity.tla")
TRACE_SPEC = os.path.join(SPECS, "purity", "PurityTrace.tla")
ADDRESS_DEVS = ("InlineNameIsAddress", "TieBreakByAddress")
DANGEROUS = ["EncodingNoCopy", "EncodingLazyCopy", "ColorSpaceNoCopy", "InitResourcesEarlyReturn", "ObjStmSiblingsCached", "ContentsArrayConsumed", "FormsInProgressByIdentity", "ResolveMemoProcessWide", "BuiltinEncodingAssigned", "DirectFontInheritsObjId", "UseCMapAlias", "UMapKeyCoarse", "SharedManager", "DecipherTwice",
             "DescendantNoCopy", "InlineNameIsAddress", "TieBreakByAddress"]
# the smallest pool / number of calls in which each dangerous alternative breaks Functional
REFUTE_IN = {"EncodingNoCopy": ('{"dA", "dB"}', 2), "EncodingLazyCopy": ('{"dA", "dB"}', 2), "InitResourcesEarlyReturn": ('{"dB"}', 1), "ObjStmSiblingsCached": ('{"dA"}', 1), "ContentsArrayConsumed": ('{"dC"}', 1), "FormsInProgressByIdentity": ('{"dB"}', 1, "{FALSE}"), "ResolveMemoProcessWide": ('{"dA", "dC"}', 2), "BuiltinEncodingAssigned": ('{"dB", "dC"}', 2),
             "DirectFontInheritsObjId": ('{"dA"}', 1), "ColorSpaceNoCopy": ('{"dA", "dC"}', 2), "UseCMapAlias": ('{"dA"}', 2),
             "UMapKeyCoarse": ('{"dA", "dB"}', 2), "SharedManager": ('{"dA", "dB"}', 2), "DecipherTwice": ('{"dC"}', 1),
             "DescendantNoCopy": ('{"dA"}', 1), "InlineNameIsAddress": ('{"dA"}', 1), "TieBreakByAddress": ('{"dB"}', 1)}
ACTIONS = ["Open", "Extract", "Next", "Close", "UseCMap", "ADocOpen", "APageStart", "AInitResources", "AInitColorSpacesCopy", "AFontCacheHit",
           "AFontMiss", "AObjStmParse", "AObjDirectParse", "AGetFontSpec", "AGetObjParsed", "ADecipherAllInPlace", "ACopyDescendantSpec", "AGetEncodingShared",
           "AGetEncodingCopyOnWrite", "ADifferencesAssign", "ADifferencesPop", "AParseToUnicode", "ACMapCacheFill", "ACMapCacheHit", "AUMapCacheFill",
           "AUMapCacheHit", "AResolveAllInPlace", "ABuiltinEncoding", "AFontCacheFill", "AExecuteContents", "ARender", "AUseCMapCopy", "AAddCode2Cid"]
INVARIANTS = ["CacheKeySound", "CMapCacheSound", "DecipheredOnce", "ObjCacheNewest", "ResolveMemoPerCall", "CachedObjectsAsParsed", "ClientOwnsItsTable"]
PROPERTIES = ["SharedTablesImmutable", "CachesAppendOnly"]
KINDS = OBS.KINDS
# short TLC runs (refutations, coverage, trace validation) spend most of their CPU in JIT warm-up: C1 only
SMALL_JVM = {"JAVA_TOOL_OPTIONS": "-XX:TieredStopAtLevel=1 -XX:CICompilerCount=1 -XX:ParallelGCThreads=2"}

# ------------------------------------------------------------------------------------------------ masks / classification
_ADDR = re.compile(r"^\d{6,}$")
_XFIG = re.compile(r'<figure name="\d{6,}"')
_XBOX = re.compile(r'<textbox id="\d+"(.*?</textbox>\n)', re.S)
_XLAYOUT = re.compile(r"<layout>.*?</layout>\n", re.S)


def mask(kind, s, inline, groups):
    """Blank the components of a canonical result that are memory addresses under the named deviations:
    inline - the name of an inline image (figure / image name made of digits only);
    groups - the order in which equidistant text boxes were grouped: the group tree, the order and the index of the
             text boxes (their contents stay)."""
    if not (inline or groups) or s.startswith("EXC:"):
        return s
    if kind == "pages":
        try:
            items = json.loads(s)
        except ValueError:
            return s
        if not isinstance(items, list) or not items or not isinstance(items[0], list):
            return s
        out = []
        for it in items:
            if inline and it[0] == "<" and it[1] == "LTFigure" and isinstance(it[4], str) and _ADDR.match(it[4]):
                it = it[:4] + ["#"]
            elif inline and it[0] == "LTImage" and isinstance(it[2], str) and _ADDR.match(it[2]):
                it = it[:2] + ["#"] + it[3:]
            out.append(it)
        if groups:
            head, boxes, others, cur, depth, isbox = out[0], [], [], [], 0, False
            for it in out[1:]:
                if it[0] == "groups":
                    continue
                if it[0] == "<":
                    if depth == 0:
                        isbox = str(it[1]).startswith("LTTextBox")
                        if isbox:
                            it = it[:3] + [None] + it[4:]
                    depth += 1
                    cur.append(it)
                elif it[0] == ">":
                    depth -= 1
                    cur.append(it)
                    if depth == 0:
                        (boxes if isbox else others).append(json.dumps(cur))
                        cur = []
                else:
                    cur.append(it)
                    if depth == 0:
                        others.append(json.dumps(cur))
                        cur = []
            out = [head, others, sorted(boxes)]
        return json.dumps(out, ensure_ascii=False, separators=(",", ":"))
    if kind == "xml":
        if inline:
            s = _XFIG.sub('<figure name="#"', s)
        if groups:
            pages = s.split('<page id="#"')
            done = []
            for pg in pages:
                boxes = sorted(m.group(1) for m in _XBOX.finditer(pg))
                rest = _XLAYOUT.sub("", _XBOX.sub("", pg))
                done.append(rest + "".join('<textbox id="#"' + b for b in boxes))
            s = '<page id="#"'.join(done)
        return s
    if kind == "text":
        if groups:
            s = "\f".join("\n\n".join(sorted(pg.split("\n\n"))) for pg in s.split("\f"))
        return s
    return s


def classify(kind, got, want):
    """None: equal.  list of deviation names: equal once the address components those deviations explain are blanked.
    'diff': different."""
    if got == want:
        return None
    if len(got) != len(want):
        return "diff"
    need = set()
    for a, b in zip(got, want):
        if a == b:
            continue
        if mask(kind, a, True, False) == mask(kind, b, True, False):
            need.add("InlineNameIsAddress")
        elif mask(kind, a, False, True) == mask(kind, b, False, True):
            need.add("TieBreakByAddress")
        elif mask(kind, a, True, True) == mask(kind, b, True, True):
            need.update(ADDRESS_DEVS)
        else:
            return "diff"
    return sorted(need)


def first_difference(a, b):
    for x, y in zip(a, b):
        if x != y:
            i = next((i for i in range(min(len(x), len(y))) if x[i] != y[i]), min(len(x), len(y)))
            return "...%s | vs | ...%s" % (x[max(0, i - 60): i + 60], y[max(0, i - 60): i + 60])
    return "different number of result units: %d vs %d" % (len(a), len(b))


DEV_WHAT = {
    "InlineNameIsAddress": "the name of an inline image (LTImage.name, LTFigure.name, <figure name=..> in xml, the exported file "
                           "name) is str(id(obj)) - a memory address, not a function of the document",
    "TieBreakByAddress": "LTLayoutContainer.group_textboxes breaks ties between equally distant text boxes by id(obj) - the "
                         "group tree (and with it box order / index) depends on memory addresses, i.e. on the process history",
}


def report(ck, axis, kind, cl, what, replay):
    """cl: result of classify (not None)"""
    if cl == "diff":
        ck.violation("%s:%s" % (axis, kind), what, replay)
    else:
        for d in cl:
            ck.violation("dev:" + d, DEV_WHAT[d] + " [seen as: %s]" % what[:300], replay)


# ------------------------------------------------------------------------------------------------ TLC
def base_constants(dev, **kw):
    c = dict(Docs="<- AllDocs", Cachings="{TRUE, FALSE}", PageSets="<- AllPageSets", Kinds='{"text"}', MaxCalls=2, MaxLive=2,
             EarlyClose="TRUE", AutoClose="FALSE", ClientCalls="TRUE", Dev=tla_set(dev) if dev else "<- NoDev", History="FALSE")
    c.update(kw)
    return c


def tlc_jobs(ck, dev):
    """-> dict of futures-like results: verify run(s), one refutation run per dangerous alternative, the history run"""
    functional = "FunctionalModuloAddress" if dev else "Functional"
    jobs = {}
    pool = concurrent.futures.ThreadPoolExecutor(max_workers=6)

    def verify(label, coverage=False, **kw):
        cfg = write_cfg(os.path.join(ck.tmp, "c12_%s.cfg" % label), constants=base_constants(dev, **kw), next="Next0",
                        invariants=[functional] + INVARIANTS, properties=PROPERTIES)
        return run_tlc(SPEC, cfg, coverage=coverage, workers=6, timeout=7200, env=SMALL_JVM if coverage else None)

    # vacuity: every action taken, on a small configuration (coverage statistics are expensive)
    jobs["coverage"] = pool.submit(verify, "coverage", True, PageSets="<- BothPages", EarlyClose="FALSE")
    jobs["verify2"] = pool.submit(verify, "verify2")
    if ck.tier == "thorough":
        jobs["verify3"] = pool.submit(verify, "verify3", MaxCalls=3, MaxLive=3, EarlyClose="FALSE", ClientCalls="FALSE",
                                      PageSets="<- TwoPageSets")

    def refute(d):
        docs, calls = REFUTE_IN[d][:2]
        flags = REFUTE_IN[d][2] if len(REFUTE_IN[d]) > 2 else "{TRUE}"
        cfg = write_cfg(os.path.join(ck.tmp, "c12_dev_%s.cfg" % d),
                        constants=base_constants([d], Docs=docs, MaxCalls=calls, MaxLive=1, Cachings=flags, PageSets="<- BothPages",
                                                 EarlyClose="FALSE", ClientCalls="TRUE" if d == "UseCMapAlias" else "FALSE"),
                        next="Next0", invariants=["Functional"])
        return run_tlc(SPEC, cfg, workers=1, timeout=3600, env=SMALL_JVM)
    for d in DANGEROUS:
        jobs["dev:" + d] = pool.submit(refute, d)

    def history(label, emit, **kw):
        cfg = write_cfg(os.path.join(ck.tmp, "c12_%s.cfg" % label), constants=base_constants(dev, History="TRUE", **kw),
                        next="Next0", invariants=[functional, "CacheKeySound"], constraints=["EmitTerminal"])
        return run_tlc(SPEC, cfg, emit=emit, workers=8, timeout=7200)
    hist = []
    if ck.tier == "quick":
        hist.append(("hist2", dict(MaxCalls=2, MaxLive=2, EarlyClose="FALSE", Kinds='{"text", "xml"}', PageSets="<- TwoPageSets")))
    else:
        hist.append(("hist2", dict(MaxCalls=2, MaxLive=2, EarlyClose="TRUE", Kinds='{"text", "xml", "pages"}')))
        # three interleaved generators over all document / caching combinations, both pages each, exhausted by the caller
        for label, flag in (("hist3", "{TRUE}"), ("hist3n", "{FALSE}")):
            hist.append((label, dict(MaxCalls=3, MaxLive=3, EarlyClose="FALSE", AutoClose="TRUE", Kinds="{}", PageSets="<- BothPages",
                                     ClientCalls="FALSE", Cachings=flag)))
    for label, kw in hist:
        emit = os.path.join(ck.tmp, "c12_%s.ndjson" % label)
        jobs[label] = (pool.submit(history, label, emit, **kw), emit, kw)
    pool.shutdown(wait=False)
    return jobs


# ------------------------------------------------------------------------------------------------ direction A
G = {}       # globals inherited by forked replay processes: docs, fresh results, schedules
STAGES = []


def stage(ck, name, t0=[None]):
    now = time.time()
    if t0[0] is not None:
        STAGES[-1][1] = round(now - t0[0], 1)
    t0[0] = now
    STAGES.append([name, None])
    ck.extra["stage_wall_s"] = [x for x in STAGES if x[1] is not None]


def client_cmap(name):
    """the lower-level call UseCMap(n): a client defines its own CMap on top of a predefined one"""
    from pdfminer.cmapdb import CMapDB, FileCMap
    m = FileCMap()
    m.use_cmap(CMapDB.get_cmap(name))
    m.add_code2cid(PD.CODE1.decode("latin-1"), 99)
    return list(m.decode(PD.CODE1))


def pages0(ps):
    return sorted(p - 1 for p in ps)


def note_mismatch(out, si, pos, kind, key, cl, detail):
    """differences explained by an address deviation are counted (one example each); real ones are kept (bounded)"""
    if cl == "diff":
        if len(out["mismatch"]) < 200:
            out["mismatch"].append((si, pos, kind, key, cl, detail))
        out["ndiff"] = out.get("ndiff", 0) + 1
    else:
        for d in cl:
            e = out.setdefault("dev", {}).setdefault(d, [0, None])
            e[0] += 1
            if e[1] is None:
                e[1] = (si, pos, kind, key, [d], detail)


def replay_schedule(sched, docs, fresh, out, si, auto=False):
    from pdfminer.high_level import extract_pages
    slots = {}
    end = object()
    for pos, ev in enumerate(sched):
        a = ev["a"]
        if a in ("page",):
            continue
        if a == "usecmap":
            got = client_cmap(ev["d"])
            out["calls"] += 1
            if got != [99]:
                note_mismatch(out, si, pos, "client", "usecmap", "diff", "client CMap decodes its own code as %r" % (got,))
            continue
        s, d, c, ps = ev["s"], ev["d"], ev["c"], pages0(ev["ps"])
        if a == "open":
            slots[s] = [extract_pages(io.BytesIO(docs[d]), caching=c, page_numbers=set(ps)), ("pages", d, c, tuple(ps)), 0]
            out["calls"] += 1
        elif a == "next":
            gen, key, k = slots[s]
            try:
                got = OBS.project_page(next(gen))
            except StopIteration:
                got = "EXC:StopIteration"
            except Exception as e:  # noqa: BLE001
                got = "EXC:%s:%s" % (type(e).__name__, str(e)[:200])
            want = fresh[key][k] if k < len(fresh[key]) else "EXC:StopIteration"
            slots[s][2] = k + 1
            out["pages"] += 1
            cl = classify("pages", [got], [want])
            if cl is not None:
                note_mismatch(out, si, pos, "pages", key, cl, first_difference([got], [want]))
            if auto and k + 1 >= len(fresh[key]):
                # AutoClose: the caller's loop asks for the next page right away and the generator ends
                if next(gen, end) is not end:
                    note_mismatch(out, si, pos, "pages", key, "diff", "the generator yields more pages than a fresh call")
                slots.pop(s)
        elif a == "close":
            gen, key, k = slots.pop(s)
            if k >= len(fresh[key]):
                if next(gen, end) is not end:
                    note_mismatch(out, si, pos, "pages", key, "diff", "the generator yields more pages than a fresh call")
            else:
                gen.close()
        elif a == "extract":
            kind = ev["k"]
            key = (kind, d, c, tuple(ps))
            got = OBS.run_call(kind, docs[d], c, ps)
            out["calls"] += 1
            out["pages"] += len(ps)
            cl = classify(kind, got, fresh[key])
            if cl is not None:
                note_mismatch(out, si, pos, kind, key, cl, first_difference(got, fresh[key]))
    for s, (gen, key, k) in slots.items():
        gen.close()


def replay_chunk(idxs):
    logging.disable(logging.CRITICAL)
    out = {"mismatch": [], "pages": 0, "calls": 0, "tables": [], "pid": os.getpid()}
    before = OBS.shared_tables()
    watch = G.setdefault("watch", OBS.CacheWatch()).install()
    watch.take()
    for si in idxs:
        replay_schedule(G["scheds"][si], G["docs"], G["fresh"], out, si, G["auto"])
        for r in watch.take():
            if r["oldafter"] != r["before"]:
                note_mismatch(out, si, 0, "cached-object", "cached-object-mutated", "diff",
                              "interpreting a page changed object(s) %s in the document's object cache" % ", ".join(r["changed"]))
        if out.get("ndiff", 0) > 2000:
            break
    after = OBS.shared_tables()
    for x in OBS.table_delta(before, after):
        if x["oldafter"] != x["before"] or (x["cls"] == "immutable" and x["after"] != x["before"]):
            out["tables"].append(x)
    return out


def composite(kind, parts):
    if kind == "pages":
        return [p for part in parts for p in part]
    if any(p[0].startswith("EXC:") for p in parts):
        return None
    return ["".join(p[0] for p in parts)]


def pool_references(ck, fp, docs):
    """fresh results of every call over the pool + the cross-option checks among fresh results"""
    combos = [(k, d, c, ps) for k in KINDS for d in PD.DOCS for c in (True, False) for ps in ((0,), (1,), (0, 1))]
    singles_k = [(k, d, i) for k in KINDS for d in PD.DOCS for i in (0, 1)]
    rs = fp.map([{"op": "call", "kind": k, "src": docs[d], "caching": True, "pages": [i]} for (k, d, i) in singles_k], offset=0)
    single = dict(zip(singles_k, rs))
    rf = fp.map([{"op": "call", "kind": k, "src": docs[d], "caching": c, "pages": list(ps)} for (k, d, c, ps) in combos], offset=1)
    fresh = dict(zip(combos, rf))
    for (k, d, c, ps) in combos:
        want = composite(k, [single[(k, d, i)] for i in ps])
        got = fresh[(k, d, c, ps)]
        ck.case(1, ("fresh", k, d, c, ps))
        cl = classify(k, got, want)
        if cl is None:
            continue
        # the other caching flag agrees with the composition: it is the flag that matters, otherwise the page subset
        axis = "caching-dependent" if classify(k, fresh[(k, d, not c, ps)], want) != "diff" else "page-subset-dependent"
        report(ck, axis, k, cl, "fresh %s of %s with caching=%s page_numbers=%s differs from the single-page results composed: %s"
               % (k, d, c, set(ps), first_difference(got, want)),
               {"kind": "fresh-call", "doc": d, "entry": k, "caching": c, "pages": list(ps)})
    # the pool must be adversarial: same structure, pairwise different results on every page
    for i in (0, 1):
        seen = {single[("pages", d, i)][0] for d in PD.DOCS}
        if len(seen) != len(PD.DOCS):
            raise MachineryError("C12 pool: two documents give the same result on page %d - the pool is not adversarial" % (i + 1))
    return fresh, single


def model_drift(ck, scheds, single, tokens):
    """the realised pool is the model's pool: glyph texts / widths / colour components of Fresh(d, p) vs the fresh real result"""
    exp = {}
    for sc in scheds:
        for ev in sc:
            if ev["a"] == "page":
                exp.setdefault((ev["d"], ev["p"]), ev)
        if len(exp) == 6:
            break
    drift = 0
    for (d, p), ev in sorted(exp.items()):
        items = json.loads(single[("pages", d, p - 1)][0])
        # reading order by position (top to bottom, left to right), glyphs inside figures last
        glyphs, depth = [], 0
        for it in items:
            if it[0] == "<" and it[1] == "LTFigure":
                depth += 1
            elif it[0] == ">" and depth:
                depth -= 1          # (figures hold no containers in the pool documents)
            elif it[0] == "c":
                glyphs.append((depth, -round(it[4][3]), it[4][0], it))
        glyphs = [g[3] for g in sorted(glyphs, key=lambda g: g[:3])]
        want_txt = [tokens.get(t, t) for t in ev["txt"]]
        got_txt = [g[1] for g in glyphs][:len(want_txt)]
        got_w = [abs(round(g[3] * 100)) for g in glyphs][:len(want_txt)]
        want_w = [abs(w) for w in ev["w"]]
        ncomp = {g[9] for g in glyphs}
        if got_txt != want_txt or got_w != want_w or ncomp != {ev["n"]}:
            drift += 1
            ck.note("model/realiser drift on %s page %d: model %r %r n=%r, real %r %r n=%r"
                    % (d, p, want_txt, want_w, ev["n"], got_txt, got_w, sorted(ncomp)))
    ck.extra["model_vs_fresh_pages_compared"] = len(exp)
    ck.extra["model_vs_fresh_drift"] = drift
    return drift


def direction_a(ck, jobs, fp, docs, fresh, single, tokens):
    nproc = max(2, min(8, (os.cpu_count() or 4) // 2))
    total_sched = 0
    for label in ("hist2", "hist3", "hist3n"):
        if label not in jobs:
            continue
        fut, emit, kw = jobs[label]
        res = fut.result()
        ck.add_tlc(res, "Purity %s (schedules for replay) %s" % (label, json.dumps(kw, sort_keys=True)))
        if not res.ok:
            raise MachineryError("Purity.tla violates %s on the intended design (%s):\n%s" % (res.violated, label, res.error_text[:3000]))
        auto = False
        scheds = []
        for line in open(emit):
            r = json.loads(line)
            scheds.append(r["sched"])
            auto = bool(r["auto"])
        os.remove(emit)
        if len(scheds) != res.emitted or not scheds:
            raise MachineryError("emitted %d schedules, read %d" % (res.emitted, len(scheds)))
        if label == "hist2":
            model_drift(ck, scheds, single, tokens)
        order = list(range(len(scheds)))
        random.Random(ck.seed * 7919 + len(scheds)).shuffle(order)
        size = max(50, min(400, len(order) // (nproc * 3) + 1))
        chunks = [order[i:i + size] for i in range(0, len(order), size)]
        G.update(scheds=scheds, docs=docs, fresh=fresh, auto=auto)
        ctx = multiprocessing.get_context("fork")
        pages = calls = 0
        pids = set()
        devhits, devseen = {}, set()
        with ctx.Pool(nproc) as mp:
            for chunk, out in zip(chunks, mp.imap(replay_chunk, chunks)):
                pages += out["pages"]
                calls += out["calls"]
                pids.add(out["pid"])
                for d, (n, ex) in sorted(out.get("dev", {}).items()):
                    devhits[d] = devhits.get(d, 0) + n
                found = out["mismatch"][:50] + [ex for d, (n, ex) in sorted(out.get("dev", {}).items()) if d not in devseen]
                devseen.update(out.get("dev", {}))
                for (si, pos, kind, key, cl, detail) in found:
                    ev = scheds[si][pos]
                    upto = chunk[max(0, chunk.index(si) - 40): chunk.index(si) + 1]
                    if kind == "cached-object":
                        ck.violation("cached-object-mutated", detail, {"kind": "schedules", "auto": auto,
                                                                       "schedules": [scheds[i] for i in upto]})
                        continue
                    report(ck, "history-dependent", kind, cl,
                           "%s of %s (caching=%s, pages=%s) in a process with a history differs from the same call in a fresh "
                           "process: %s" % (kind, ev.get("d"), ev.get("c"), ev.get("ps"), detail),
                           {"kind": "schedules", "failing_event": pos, "auto": auto, "schedules": [scheds[i] for i in upto]})
                for x in out["tables"]:
                    key = ("shared-table-mutated:" if x["cls"] == "immutable" else "cache-entry-modified:") + x["name"]
                    ck.violation(key, "process-wide table %s changed while replaying schedules (entries before %d, after %d, changed "
                                 "keys %s)" % (x["name"], x["nb"], x["na"], x["changed"]),
                                 {"kind": "schedules", "schedules": [scheds[i] for i in chunk[:40]]})
        for si in order:
            ck.case(sum(1 for ev in scheds[si] if ev["a"] == "page"), (label, si))
        inter = [sc for sc in scheds if len({ev["s"] for ev in sc if ev["a"] == "next"}) >= 2][:2] + \
                [sc for sc in scheds if any(ev["a"] == "extract" for ev in sc) and any(ev["a"] == "next" for ev in sc)][:1]
        for sc in inter:
            steps = []
            for ev in sc:
                if ev["a"] == "page":
                    steps.append("  -> page %d of %s: model %s, widths %s; real result = fresh-process result" % (ev["p"], ev["d"], ev["txt"], ev["w"]))
                elif ev["a"] == "usecmap":
                    steps.append("UseCMap(%s)" % ev["d"])
                else:
                    steps.append("%s slot %d %s caching=%s pages=%s%s" % (ev["a"], ev["s"], ev["d"], ev["c"], ev["ps"],
                                                                         " via " + ev["k"] if ev["a"] == "extract" else ""))
            ck.sample({"schedule_from_tlc": steps, "replayed_in_one_process": True,
                       "each_result_compared_with": "the same call in a fresh process (digest equal, or equal up to the known address components)"})
        ck.replayed += len(scheds)
        total_sched += len(scheds)
        ck.extra["replay_%s" % label] = {"schedules": len(scheds), "page_results_compared": pages, "calls": calls,
                                        "replay_processes": len(pids), "results_equal_only_up_to_address_components": devhits}
        want_pages = sum(1 for sc in scheds for ev in sc if ev["a"] == "page")
        if pages != want_pages and not ck.violations:
            raise MachineryError("replay of %s compared %d page results, the schedules contain %d" % (label, pages, want_pages))
    return total_sched


def lowlevel_manager_reuse(docs, order=("dA", "dB")):
    """the lower-level recipe with ONE PDFResourceManager reused for several documents (not what the tutorial shows)"""
    logging.disable(logging.CRITICAL)
    from pdfminer.converter import PDFPageAggregator
    from pdfminer.layout import LAParams
    from pdfminer.pdfinterp import PDFPageInterpreter, PDFResourceManager
    from pdfminer.pdfpage import PDFPage
    rm = PDFResourceManager()
    out = {}
    for d in order:
        dev = PDFPageAggregator(rm, laparams=LAParams())
        it = PDFPageInterpreter(rm, dev)
        res = []
        for pg in PDFPage.get_pages(io.BytesIO(docs[d])):
            it.process_page(pg)
            res.append(OBS.project_page(dev.get_result()))
        out[d] = res
    return out


# ------------------------------------------------------------------------------------------------ direction B
def grid_doc():
    from ..realise.pdfwriter import simple_doc
    parts = [b"BT /F1 10 Tf"]
    for i in range(3):
        for j in range(3):
            parts.append(b"1 0 0 1 %d %d Tm (ab) Tj" % (50 + 100 * j, 700 - 100 * i))
    parts.append(b"ET")
    return simple_doc([b"\n".join(parts), b"BT /F1 12 Tf 40 500 Td (second page) Tj ET"])[0]


def differences_doc(base, diffs):
    """a simple font over a shared base encoding whose /Differences array is `diffs` (e.g. starting with a glyph name that
    has no Unicode value: that entry REMOVES a code - from the font's own copy of the table, never from the shared one)"""
    from ..realise.pdfwriter import simple_doc, type1_font
    f = type1_font("Helvetica", Encoding={"Type": PD.Name("Encoding"), "BaseEncoding": PD.Name(base), "Differences": list(diffs)})
    return simple_doc([b"BT /F1 12 Tf 72 700 Td (ABC abc) Tj ET"], fonts={"F1": f})[0]


def type1_program_doc(variant):
    """a non-standard-14 Type 1 font WITHOUT /Encoding whose embedded program header gives the built-in encoding:
    'std-def'  /Encoding StandardEncoding def, then dup 65 /X put  dup 66 /Y put  (re-assigns codes of the standard table)
    'array'    /Encoding 256 array ... dup 65 /X put  dup 66 /Y put
    'plain'    no font program at all: the shared StandardEncoding table applies as it is"""
    from ..realise.fontpdf import fontfile_stream, type1_header
    from ..realise.pdfwriter import Ref, simple_doc
    font = {"Type": PD.Name("Font"), "Subtype": PD.Name("Type1"), "BaseFont": PD.Name("VerifSerif"), "FirstChar": 65, "LastChar": 67,
            "Widths": [500, 600, 700], "FontDescriptor": Ref(40)}
    desc = {"Type": PD.Name("FontDescriptor"), "FontName": PD.Name("VerifSerif"), "Flags": 32, "FontBBox": [0, -200, 1000, 800],
            "ItalicAngle": 0, "Ascent": 800, "Descent": -200, "CapHeight": 700, "StemV": 80}
    extra = {40: desc}
    if variant != "plain":
        desc["FontFile"] = Ref(41)
        extra[41] = fontfile_stream(type1_header([(65, "X"), (66, "Y")], fontname="VerifSerif", standard=(variant == "std-def")))
    return simple_doc([b"BT /F1 12 Tf 72 700 Td (ABC) Tj ET"], fonts={"F1": font}, extra_objects=extra)[0]


def mixed_font_dict_doc(order, in_form):
    """/Font dictionaries that mix indirect and direct entries (order 'indirect-first' | 'direct-first'); the two fonts differ in
    encoding (Differences) and widths; with in_form the dictionary is the /Resources of a form XObject the page paints"""
    from ..realise.pdfwriter import Ref, Stream, simple_doc
    def font(widths, diffs):
        return {"Type": PD.Name("Font"), "Subtype": PD.Name("TrueType"), "BaseFont": PD.Name("VerifSans"), "FirstChar": 65, "LastChar": 66,
                "Widths": list(widths), "FontDescriptor": Ref(40),
                "Encoding": {"Type": PD.Name("Encoding"), "BaseEncoding": PD.Name("WinAnsiEncoding"), "Differences": diffs}}
    desc = {"Type": PD.Name("FontDescriptor"), "FontName": PD.Name("VerifSans"), "Flags": 32, "FontBBox": [0, -200, 1000, 800],
            "ItalicAngle": 0, "Ascent": 800, "Descent": -200, "CapHeight": 700, "StemV": 80}
    ind = font((500, 600), [65, PD.Name("Omega")])
    dire = font((900, 300), [66, PD.Name("Delta")])
    extra = {40: desc, 41: ind}
    fonts = {"Fi": Ref(41), "Fd": dire} if order == "indirect-first" else {"Fd": dire, "Fi": Ref(41)}
    text = b"BT /Fi 10 Tf 1 0 0 1 50 700 Tm (AB) Tj /Fd 10 Tf 1 0 0 1 50 600 Tm (AB) Tj ET"
    if not in_form:
        return simple_doc([text, text], fonts=fonts, extra_objects=extra)[0]
    extra[42] = Stream({"Type": PD.Name("XObject"), "Subtype": PD.Name("Form"), "BBox": [0, 0, 612, 792], "Resources": {"Font": fonts}}, text)
    return simple_doc([b"/Fm1 Do", b"/Fm1 Do"], fonts={}, xobjects={"Fm1": Ref(42)}, extra_objects=extra)[0]


def truetype_cid_doc(word):
    """Type0 -> CIDFontType2 (Adobe-Identity, Identity-H, embedded /FontFile2, NO /ToUnicode): the text comes from the cmap table
    of the embedded TrueType program.  Every such document uses the SAME /BaseFont name and object numbers and shows glyphs
    1 2; the cmap table says which characters those are (`word`)."""
    from ..realise.fontpdf import truetype_with_cmap
    from ..realise.pdfwriter import Ref, Stream, simple_doc
    ttf = truetype_with_cmap({ord(ch): i + 1 for i, ch in enumerate(word)})
    desc = {"Type": PD.Name("FontDescriptor"), "FontName": PD.Name("AAAAAA+VerifTT"), "Flags": 4, "FontBBox": [0, -200, 1000, 800],
            "ItalicAngle": 0, "Ascent": 800, "Descent": -200, "CapHeight": 700, "StemV": 80, "FontFile2": Ref(42)}
    cid = {"Type": PD.Name("Font"), "Subtype": PD.Name("CIDFontType2"), "BaseFont": PD.Name("AAAAAA+VerifTT"),
           "CIDSystemInfo": {"Registry": b"Adobe", "Ordering": b"Identity", "Supplement": 0}, "FontDescriptor": Ref(40), "DW": 500,
           "CIDToGIDMap": PD.Name("Identity")}
    f = {"Type": PD.Name("Font"), "Subtype": PD.Name("Type0"), "BaseFont": PD.Name("AAAAAA+VerifTT"), "Encoding": PD.Name("Identity-H"),
         "DescendantFonts": [Ref(41)]}
    extra = {40: desc, 41: cid, 42: Stream({"Length1": len(ttf)}, ttf)}
    codes = b"".join(b"%04x" % (i + 1) for i in range(len(word)))
    return simple_doc([b"BT /F1 12 Tf 72 700 Td <" + codes + b"> Tj ET"], fonts={"F1": f}, extra_objects=extra)[0]


MANY = "generated:many-names"


def many_names_doc(n=70000):
    """one page whose content stream holds n distinct names (/T0 MP /T1 MP ...) and n distinct unknown keywords: the interning
    tables (PSLiteralTable, PSKeywordTable) grow by n entries each while it is read"""
    from ..realise.pdfwriter import simple_doc
    body = b" ".join(b"/T%d MP" % i for i in range(n)) + b" " + b" ".join(b"K%dq" % i for i in range(n))
    return simple_doc([b"BT /F1 10 Tf 50 700 Td (many) Tj ET " + body])[0]


def std14_doc(widths):
    """a standard-14 font (metrics come from the shared FONT_METRICS table) that also carries its own /Widths"""
    from ..realise.pdfwriter import simple_doc, type1_font
    f = type1_font("Helvetica", FirstChar=65, LastChar=66, Widths=list(widths), Encoding=PD.Name("WinAnsiEncoding"))
    return simple_doc([b"BT /F1 10 Tf 40 700 Td (AB) Tj ET", b"BT /F1 10 Tf 40 600 Td (BA) Tj ET"], fonts={"F1": f})[0]


def generated_corpus(docs):
    """label -> bytes of the generated documents that join the repository samples in the recorded histories"""
    N = PD.Name
    out = {"generated:" + d: docs[d] for d in PD.DOCS}
    out["generated:grid"] = grid_doc()
    out["generated:std14-wide"] = std14_doc((900, 100))
    out["generated:std14-narrow"] = std14_doc((100, 900))
    for base in ("WinAnsiEncoding", "MacRomanEncoding", "StandardEncoding"):
        # removal first, removal only, removal after an entry that repeats the base table, plain use of the same base
        out["generated:diff-pop-first:" + base] = differences_doc(base, [65, N("g1234"), N("bullet")])
        out["generated:diff-pop-only:" + base] = differences_doc(base, [97, N("g77")])
        out["generated:diff-same-then-pop:" + base] = differences_doc(base, [67, N("C"), 99, N("g88")])
        out["generated:diff-none:" + base] = differences_doc(base, [])
    out[MANY] = many_names_doc()
    # same-named embedded TrueType CID fonts whose cmap tables differ
    out["generated:ttf-Hi"] = truetype_cid_doc("Hi")
    out["generated:ttf-No"] = truetype_cid_doc("No")
    for v in ("std-def", "array", "plain"):
        out["generated:t1-" + v] = type1_program_doc(v)
    for order in ("indirect-first", "direct-first"):
        out["generated:mix-%s" % order] = mixed_font_dict_doc(order, False)
        out["generated:mix-form-%s" % order] = mixed_font_dict_doc(order, True)
    return out


def record_history(args):
    """one process, one history: -> list of events with results and table summaries"""
    tid, calls = args
    logging.disable(logging.CRITICAL)
    events = []
    watch = OBS.CacheWatch().install()
    prev = OBS.shared_tables()
    for (label, kind, caching, pages) in calls:
        src = G["corpus"][label]["src"]
        watch.take()
        res = OBS.run_call(kind, src, caching, pages, G["corpus"][label]["password"])
        cur = OBS.shared_tables()
        events.append({"doc": label, "fn": kind, "caching": caching, "pages": pages, "res": res,
                       "tabs": OBS.table_delta(prev, cur), "cobj": watch.take()})
        prev = cur
    return tid, events


def plan_history(rng, corpus, per_doc):
    calls = []
    for label, info in corpus.items():
        if label == MANY:
            continue
        U = list(range(min(info["npages"], 3)))
        for _ in range(per_doc):
            kind = rng.choice(KINDS)
            caching = rng.random() < 0.5
            if not U:
                pages = None
            elif info["npages"] <= 3 and rng.random() < 0.3:
                pages = None
            else:
                pages = sorted(rng.sample(U, rng.randrange(1, len(U) + 1)))
            calls.append((label, kind, caching, pages))
    # the pool documents (shared indirect /Contents, /Resources, /Font, forms; object stream + update) always get a call
    # with caching on over all pages and one with caching off
    for label in corpus:
        if label.startswith(("generated:dA", "generated:dB", "generated:dC", "generated:mix", "generated:t1", "generated:ttf")):
            calls.append((label, rng.choice(KINDS), True, None))
            calls.append((label, rng.choice(KINDS), False, None))
    rng.shuffle(calls)
    # every history ends with: an ordinary document, the document with 70 000 distinct names and keywords, the ordinary
    # document again (interning tables: size may grow, the identity of what is interned must not change)
    if MANY in corpus:
        kind = rng.choice(KINDS)
        calls += [("generated:dB", kind, True, None), (MANY, "text", True, None), ("generated:dB", kind, True, None)]
    return calls


def units_of(ev, fresh_same, single, corpus, dev):
    """result units of one recorded call with raw / fresh / pure values (strings)"""
    label, kind, pages = ev["doc"], ev["fn"], ev["pages"]
    n = corpus[label]["npages"]
    S = pages if pages is not None else list(range(n))
    fs = fresh_same[(label, kind, ev["caching"], None if pages is None else tuple(pages))]
    got = ev["res"]
    units = []
    if kind == "pages":
        if len(got) != len(fs):
            units.append(("%s|pages|count" % label, str(len(got)), str(len(fs)), str(len(fs))))
        for k, (g, f) in enumerate(zip(got, fs)):
            if k < len(S) and not f.startswith("EXC:") and (label, kind, S[k]) in single and len(single[(label, kind, S[k])]) == 1:
                pure = single[(label, kind, S[k])][0]
                key = "%s|pages|%d" % (label, S[k])
            else:
                pure = f
                key = "%s|pages|%s#%d" % (label, "all" if pages is None else ",".join(map(str, pages)), k)
            units.append((key, g, f, pure))
    else:
        parts = [single.get((label, kind, i)) for i in S]
        pure = None
        if S and all(p is not None for p in parts) and not fs[0].startswith("EXC:"):
            pure = composite(kind, parts)
        units.append(("%s|%s|%s" % (label, kind, ",".join(map(str, S))), got[0], fs[0], pure[0] if pure else fs[0]))
    inline, groups = "InlineNameIsAddress" in dev, "TieBreakByAddress" in dev
    out = []
    for key, raw, fresh, pure in units:
        out.append({"key": key, "raw": OBS.digest(raw), "fresh": OBS.digest(fresh), "pure": OBS.digest(pure),
                    "mraw": OBS.digest(mask(kind, raw, inline, groups)), "mfresh": OBS.digest(mask(kind, fresh, inline, groups)),
                    "mpure": OBS.digest(mask(kind, pure, inline, groups)), "_s": (raw, fresh, pure)})
    return out


def explain_event(ck, tr, e, ev, dev, memo):
    """a rejected event: name the failing conjunct(s) as violations"""
    rp = {"kind": "recorded-call", "trace": tr["label"], "event": e, "doc": ev["doc"], "entry": ev["fn"], "caching": ev["caching"],
          "pages": ev["pages"], "history": [[x["doc"], x["fn"], x["caching"], x["pages"]] for x in tr["events"][:e]][-60:]}
    said = False
    for x in ev["tabs"]:
        if x["cls"] == "immutable" and (x["after"] != x["before"] or x["na"] != x["nb"]):
            said |= ck.violation("shared-table-mutated:" + x["name"], "%s changed during %s(%s) (entries %d -> %d, changed %s)"
                                 % (x["name"], ev["fn"], ev["doc"], x["nb"], x["na"], x["changed"]), rp) or True
        elif x["oldafter"] != x["before"] or x["na"] < x["nb"]:
            said |= ck.violation("cache-entry-modified:" + x["name"], "an existing entry of %s was modified or removed during %s(%s): %s"
                                 % (x["name"], ev["fn"], ev["doc"], x["changed"]), rp) or True
    for k, r in enumerate(ev.get("cobj", []), 1):
        if r["oldafter"] != r["before"] or r["na"] < r["nb"]:
            ck.violation("cached-object-mutated", "%s(%s, caching=%s): interpreting page #%d of the call changed object(s) %s that were "
                         "in the document's object cache (PDFDocument._cached_objs) in place" % (ev["fn"], ev["doc"], ev["caching"], k,
                                                                                                ", ".join(r["changed"])), rp)
            said = True
    for u in ev["results"]:
        raw, fresh, pure = u["_s"]
        kind = ev["fn"]
        cl = classify(kind, [raw], [fresh])
        if cl is not None:
            report(ck, "history-dependent", kind, cl, "%s of %s (caching=%s pages=%s) after %d other calls differs from a fresh "
                   "process: %s" % (kind, ev["doc"], ev["caching"], ev["pages"], e - 1, first_difference([raw], [fresh])), rp)
            said = True
        cl = classify(kind, [fresh], [pure])
        if cl is not None:
            report(ck, "option-dependent", kind, cl, "fresh %s of %s with caching=%s pages=%s differs from the single-page "
                   "caching=True results composed: %s" % (kind, ev["doc"], ev["caching"], ev["pages"], first_difference([fresh], [pure])), rp)
            said = True
        seen = memo.get(u["key"])
        if seen is not None and seen != (u["mraw"] if dev else u["raw"]) and cl is None:
            ck.violation("not-functional:" + kind, "two calls for %s gave different results in one history" % u["key"], rp)
            said = True
    if not said:
        ck.violation("trace-rejected", "PurityTrace.tla rejects event %d of %s (%s %s): a table summary before the call differs "
                     "from the one after the previous call" % (e, tr["label"], ev["fn"], ev["doc"]), rp)


def direction_b(ck, fp, docs, dev):
    rng = random.Random(ck.seed * 1000003 + 12)
    files = sorted(glob.glob("/repo/samples/**/*.pdf", recursive=True))
    if ck.tier == "quick":
        light = [f for f in files if os.path.basename(f) not in ("i1040nr.pdf", "nlp2004slides.pdf", "dmca.pdf", "f1040nr.pdf",
                                                                  "naacl06-shinyama.pdf", "issue-00352-hash-twos-complement.pdf")]
        files = sorted(rng.sample(light, 13)) + ["/repo/samples/nonfree/f1040nr.pdf"]
    corpus = {}
    for f in files:
        corpus[os.path.relpath(f, "/repo/samples")] = {"src": f, "password": OBS.password_for(f)}
    for lab, data in generated_corpus(docs).items():
        corpus[lab] = {"src": data, "password": ""}
    labels = list(corpus)
    for lab, n in zip(labels, fp.map([{"op": "npages", "src": corpus[x]["src"], "password": corpus[x]["password"]} for x in labels])):
        corpus[lab]["npages"] = n
    ntraces, per_doc = (3, 2) if ck.tier == "quick" else (8, 4)
    plans = [(t, plan_history(random.Random(ck.seed * 977 + t), corpus, per_doc)) for t in range(ntraces)]
    G["corpus"] = corpus
    ctx = multiprocessing.get_context("fork")
    with ctx.Pool(min(ntraces, 8)) as mp:
        recorded = dict(mp.map(record_history, plans, chunksize=1))
    # fresh references: the same call in a fresh process, and single-page calls with caching on
    same_keys = sorted({(lab, k, c, None if p is None else tuple(p)) for _, calls in plans for (lab, k, c, p) in calls}, key=repr)
    single_keys = sorted({(lab, k, i) for _, calls in plans for (lab, k, c, p) in calls
                          for i in (p if p is not None else range(corpus[lab]["npages"]))}, key=repr)
    rs = fp.map([{"op": "call", "kind": k, "src": corpus[lab]["src"], "caching": c, "pages": None if p is None else list(p),
                  "password": corpus[lab]["password"]} for (lab, k, c, p) in same_keys], offset=1)
    fresh_same = dict(zip(same_keys, rs))
    rs = fp.map([{"op": "call", "kind": k, "src": corpus[lab]["src"], "caching": True, "pages": [i],
                  "password": corpus[lab]["password"]} for (lab, k, i) in single_keys], offset=2)
    single = dict(zip(single_keys, rs))
    traces = []
    for t, calls in plans:
        evs = []
        for ev in recorded[t]:
            ev["results"] = units_of(ev, fresh_same, single, corpus, dev)
            evs.append(ev)
        traces.append({"label": "history %d (%d calls over %d documents)" % (t, len(evs), len(corpus)), "events": evs})
    # known address deviations: report where raw results differ although the masked ones agree
    for tr in traces:
        for e, ev in enumerate(tr["events"], 1):
            for u in ev["results"]:
                raw, fresh, pure = u["_s"]
                for a, b in ((raw, fresh), (fresh, pure)):
                    cl = classify(ev["fn"], [a], [b])
                    if cl not in (None, "diff") and set(cl) <= set(dev):
                        report(ck, "address", ev["fn"], cl, "%s of %s" % (ev["fn"], ev["doc"]), None)
            ck.case(len(ev["results"]), ("B", tr["label"], e))
    validate_traces(ck, traces, dev)
    ck.extra["recorded_histories"] = {"traces": len(traces), "calls": sum(len(t["events"]) for t in traces),
                                     "documents": len(corpus), "fresh_process_calls": len(same_keys) + len(single_keys),
                                     "tables_watched": [x["name"] for x in traces[0]["events"][0]["tabs"]]}
    ev = traces[0]["events"][0]
    ck.sample({"recorded_call": [ev["doc"], ev["fn"], ev["caching"], ev["pages"]],
               "results": [{k: u[k] for k in ("key", "raw", "fresh", "pure")} for u in ev["results"]][:3],
               "tables": [{k: x[k] for k in ("name", "cls", "nb", "na", "before", "after")} for x in ev["tabs"]][:4]})
    return traces


def tlc_view(traces):
    return [{"label": tr["label"],
             "events": [{"doc": ev["doc"], "fn": ev["fn"], "caching": ev["caching"],
                         "results": [{k: u[k] for k in ("key", "raw", "fresh", "pure", "mraw", "mfresh", "mpure")} for u in ev["results"]],
                         "tabs": [{k: x[k] for k in ("name", "cls", "nb", "na", "before", "after", "oldafter")} for x in ev["tabs"]],
                         "cobj": [{k: x[k] for k in ("nb", "na", "before", "oldafter")} for x in ev.get("cobj", [])]}
                        for ev in tr["events"]]} for tr in traces]


def run_trace_tlc(ck, view, dev, label):
    tf = os.path.join(ck.tmp, "c12_traces_%s.json" % label)
    json.dump(view, open(tf, "w"))
    cfg = write_cfg(os.path.join(ck.tmp, "c12_trace.cfg"), constants={"Dev": tla_set(dev) if dev else "{}"}, spec="Spec", deadlock=True)
    res = run_tlc(TRACE_SPEC, cfg, workers=1, env=dict(SMALL_JVM, TRACE_FILE=tf), timeout=3600)
    if not res.ok and (res.violated != "deadlock" or not res.error_trace):
        raise MachineryError("trace validation failed unexpectedly: " + res.error_text[:2000])
    return res


def validate_traces(ck, traces, dev):
    todo = traces
    rejected = 0
    while todo:
        res = run_trace_tlc(ck, tlc_view(todo), dev, "b")
        ck.add_tlc(res, "PurityTrace: %d recorded histories" % len(todo))
        if res.ok:
            ck.traces += len(todo)
            break
        st = res.error_trace[-1][1]
        t, e = int(st["t"]), int(st["e"])
        tr = todo[t - 1]
        ck.traces += t - 1
        memo = {}
        for ev in tr["events"][:e - 1]:
            for u in ev["results"]:
                memo.setdefault(u["key"], u["mraw"] if dev else u["raw"])
        explain_event(ck, tr, e, tr["events"][e - 1], dev, memo)
        rejected += 1
        # go on behind the rejected event (what the mutation of a table or cached object does to later results is
        # reported as well), then with the other histories
        rest = tr["events"][e:]
        todo = ([{"label": tr["label"] + " (continued after event %d)" % e, "events": rest}] if rest else []) + todo[t:]
        if rejected >= 6:
            break
    ck.extra["recorded_histories_rejected"] = rejected
    # vacuity of the trace spec: a corrupted field must be rejected at that event
    if traces and rejected == 0:
        for field in ("raw", "oldafter", "cobj"):
            view = tlc_view(traces[:1])
            k = min(2, len(view[0]["events"]) - 1)
            if field == "raw":
                u = view[0]["events"][k]["results"][0]
                u["raw"] = u["mraw"] = "0000000000000000"
            elif field == "oldafter":
                view[0]["events"][k]["tabs"][-2]["oldafter"] = "corrupted"
            else:
                withc = [i for i, ev in enumerate(view[0]["events"]) if ev["cobj"] and ev["cobj"][0]["nb"] > 0]
                if not withc:
                    raise MachineryError("no recorded call interpreted a page with a non-empty object cache: cached objects unwatched")
                k = withc[0]
                view[0]["events"][k]["cobj"][-1]["oldafter"] = "corrupted"
            res = run_trace_tlc(ck, view, dev, "corrupt")
            st = res.error_trace[-1][1] if res.error_trace else {}
            if res.ok or int(st.get("e", 0)) != k + 1:
                raise MachineryError("PurityTrace.tla accepted a trace whose field %r was corrupted at event %d" % (field, k + 1))
        ck.extra["corrupted_traces_rejected"] = 3


# ------------------------------------------------------------------------------------------------ run
def run(ck):
    dev = [d for d in active("purity") if d in ADDRESS_DEVS]
    ck.extra["deviations_modelled_as_coded"] = dev
    ck.rule = ("A: every schedule of MaxCalls public calls (Extract x entry point, Open/Next/Close of up to MaxLive interleaved "
               "extract_pages generators, client UseCMap) over 3 adversarially sharing documents x caching flag x page subsets "
               "{1},{2},{1,2} enumerated by TLC, replayed back to back in a few long-lived processes; one evaluation = one page "
               "result (or whole text/xml output) compared with a fresh process; non-trivial = a schedule (all have >= 2 calls). "
               "fresh x fresh: caching on/off, one page at a time vs together, two hash seeds. "
               "B: recorded random histories over repository samples + generated documents; one evaluation = one result unit.")
    ck.assumptions = [
        "the property is observed at the three public entry points (extract_pages, extract_text, extract_text_to_fp xml); a "
        "PDFResourceManager that client code reuses for several documents (font cache keyed by objid alone) is outside it and "
        "reported as a note",
        "LTPage.pageid / <page id> is the ordinal of the page within the call, not part of the page's result",
        "a 'fresh process' is a child forked from a worker that imported pdfminer and never extracted anything",
        "table contents (WinAnsi, H / V CMaps, to-unicode-Adobe-Japan1) are constants of the model read from the package",
    ]
    t0 = time.time()
    stage(ck, "start TLC runs, build pool, fresh references")
    jobs = tlc_jobs(ck, dev)
    docs = PD.pool()
    fp = OBS.FreshPool(n=max(4, min(12, (os.cpu_count() or 4) - 4)))
    try:
        # horizontal and vertical table constants come from two different fresh processes
        tokens = PD.merge_tokens(fp.ask(0, {"op": "tokens", "part": "h"}), fp.ask(1, {"op": "tokens", "part": "v"}))
        fresh, single = pool_references(ck, fp, docs)
        # the verification runs
        stage(ck, "wait for TLC verification / refutation runs")
        for label in ("coverage", "verify2", "verify3"):
            if label in jobs:
                res = jobs[label].result()
                ck.add_tlc(res, "Purity %s: all invariants and action properties, no history variable" % label)
                if not res.ok:
                    raise MachineryError("Purity.tla violates %s on the intended design:\n%s" % (res.violated, res.error_text[:3000]))
                if res.actions:
                    require_coverage(res, ACTIONS)
        refuted = {}
        for d in DANGEROUS:
            res = jobs["dev:" + d].result()
            ck.add_tlc(res, "Purity with Dev={%s}: Functional must be violated" % d)
            refuted[d] = res.violated
            if res.ok or res.violated != "Functional":
                raise MachineryError("the dangerous alternative %s does not violate Functional in Purity.tla (%r)" % (d, res.violated))
        ck.extra["dangerous_alternatives_refuted_by_tlc"] = sorted(refuted)
        stage(ck, "direction A: wait for schedules, replay")
        direction_a(ck, jobs, fp, docs, fresh, single, tokens)
        # lower-level recipe with one resource manager for two documents
        stage(ck, "lower-level recipe probe")
        ctx = multiprocessing.get_context("fork")
        with ctx.Pool(1) as mp:
            low = mp.apply(lowlevel_manager_reuse, (docs,))
        leaks = [d for d in low if classify("pages", low[d], fresh[("pages", d, True, (0, 1))]) == "diff"]
        ck.extra["lowlevel_one_manager_for_several_documents_leaks_fonts"] = leaks
        if leaks:
            ck.note("outside the property as stated: ONE PDFResourceManager reused for dA then dB (lower-level recipe) hands dB the "
                    "fonts cached for dA's object numbers (as Purity.tla predicts under Dev={SharedManager}); the high-level "
                    "functions create a manager per call and the tutorial one per document")
        stage(ck, "direction B: record histories, fresh references, trace validation")
        direction_b(ck, fp, docs, dev)
        stage(ck, "done")
    finally:
        fp.close()
    ck.extra["fresh_process_requests_served"] = fp.served
    if ck.violations:
        keys = sorted({k for (k, _, _) in ck.violations})
        ck.extra["violation_keys"] = keys
        print("C12 violation keys: " + ", ".join(keys))
    ck.extra["wall_s_total"] = round(time.time() - t0, 1)
    ck.exhaustive = True


# ------------------------------------------------------------------------------------------------ replay of a violation
def replay(path):
    doc = json.load(open(path))
    c = unjson(doc["case"])
    docs = PD.pool()
    fp = OBS.FreshPool(n=2)
    try:
        if c.get("kind") == "schedules":
            fresh, _ = {}, None
            combos = [(k, d, cc, ps) for k in KINDS for d in PD.DOCS for cc in (True, False) for ps in ((0,), (1,), (0, 1))]
            rf = fp.map([{"op": "call", "kind": k, "src": docs[d], "caching": cc, "pages": list(ps)} for (k, d, cc, ps) in combos])
            fresh = dict(zip(combos, rf))
            out = {"mismatch": [], "pages": 0, "calls": 0}
            for i, sc in enumerate(c["schedules"]):
                replay_schedule(sc, docs, fresh, out, i, bool(c.get("auto")))
            print("replayed %d schedules, %d page results, %d differences, %s equal only up to address components"
                  % (len(c["schedules"]), out["pages"], len(out["mismatch"]), {d: n for d, (n, _) in out.get("dev", {}).items()}))
            for m in out["mismatch"][:10] + [ex for (_, ex) in out.get("dev", {}).values()]:
                print("  schedule %d event %d %s %r: %s\n    %s" % m)
        elif c.get("kind") in ("recorded-call", "fresh-call"):
            gen = generated_corpus(docs)
            if c.get("kind") == "recorded-call":
                for (lab, k, cc, p) in c.get("history", []):
                    src = gen[lab] if lab in gen else os.path.join("/repo/samples", lab)
                    OBS.run_call(k, src, cc, p, OBS.password_for(src) if isinstance(src, str) else "")
            lab = c["doc"]
            src = gen[lab] if lab in gen else (docs[lab] if lab in docs else os.path.join("/repo/samples", lab))
            pw = OBS.password_for(src) if isinstance(src, str) else ""
            got = OBS.run_call(c["entry"], src, c["caching"], c["pages"], pw)
            want = fp.ask(0, {"op": "call", "kind": c["entry"], "src": src, "caching": c["caching"], "pages": c["pages"], "password": pw})
            print("in this process vs fresh process:", classify(c["entry"], got, want) or "equal")
            if got != want:
                print("  ", first_difference(got, want))
    finally:
        fp.close()
    print("VIOLATION property=C12 replay=%s" % path)
    return 1
