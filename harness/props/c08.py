"""C08 - layout analysis conserves content and keeps the hierarchy well-formed.

A. TLC enumerates glyph arrangements (families lines / stacks / columns / figures / extremes, every gap and overlap at
   threshold-1, threshold, threshold+1 units) x LAParams grids incl. boxes_flow=None and extremes on
   specs/layout/Layout.tla, checking Conservation, BBoxIsUnion, OneOrientationAndNewline, LineOrder, Indices0toN,
   TextIsConcat in every state and the Termination action property; -simulate covers pages of up to 9 glyphs.  Every
   completed analysis TLC prints is realised twice on the real code - LTChar objects added to an LTPage / LTFigure and
   analyze(LAParams), and generated PDFs through extract_pages / extract_text - at several powers of two, and the
   projected tree (nested glyph-id lists with bbox / index / text) is compared with the model's.
B. analyze() of pages of the repository samples is recorded and validated by TLC against specs/layout/LayoutTrace.tla
   (control skeleton on Fraction-recomputed facts; all C08 invariants on the recorded final tree).
"""
import json
import os

from ..core import unjson
from ..deviations import active
from ..observe import layoutcheck as LC
from ..observe import layoutrun as O
from ..realise import layout_real as R

PID = "C08"


def run(ck):
    dev = active("layout")
    ck.extra["deviations_modelled_as_coded"] = dev
    ck.rule = ("A: every arrangement TLC reaches in the build phase of Layout.tla (<= MaxItems items per family, moves at "
               "threshold-1/threshold/threshold+1) x every LAParams of the family's grid x container kind, each realised as "
               "LTChar objects at scales 1, 8, 1/4, 64 (twice at scale 1: natural and reversed id() order) and as one PDF page; "
               "non-trivial = at least two glyphs. B: one recorded LTLayoutContainer.analyze call per trace; non-trivial = at "
               "least two glyphs.")
    ck.assumptions = ["coordinates and LAParams ratios are dyadic (exact in binary64); the library default word_margin 0.1 is "
                      "used only where no threshold coincides",
                      "index bounds (page / figure bbox) start at the origin; objects outside them are covered for "
                      "conservation, not for the neighbour relation",
                      "the id() tie-break of group_textboxes is a nondeterministic choice in the specification; the real "
                      "result must be one of the specification's outcomes"]
    quick = ck.tier == "quick"
    # B, first half: the real analysis of the samples is recorded and the C08 predicates are evaluated on every real tree
    traces = LC.record_samples(ck, PID)
    jobs = LC.trace_jobs(ck, traces, dev, PID)
    # the design as coded (named deviations of known findings switched on): TLC shows that it breaks the property
    if dev:
        jobs.append(lambda: LC.ascoded_model_run(ck, dev, LC.C08_INV))
    # A: the intended design - all C08 invariants must hold; every completed analysis is replayed on the real code.
    # (the TLC runs of B - trace validation - run alongside)
    LC.direction_a(ck, PID, LC.C08_INV, [], pdf_every=3 if quick else 2, pdf_scales=[1] if quick else [1, 8],
                   pdf_text_every=1, extra_jobs=jobs)
    xr = LC.extra_results()
    if dev:
        res = xr.pop()
        ck.add_tlc(res, "as-coded design (Dev=%s) on a small space" % ",".join(dev))
        if res.ok:
            ck.note("as-coded specification (Dev=%s) no longer violates a C08 invariant on the small space" % dev)
        elif res.violated == "Indices0toN" and "NoIndexFlowNone" in dev:
            ck.violation("dev:NoIndexFlowNone", "TLC: Indices0toN violated on the as-coded design", None)
        else:
            ck.violation("model-ascoded:%s" % res.violated, "TLC: %s violated on the as-coded design" % res.violated,
                         {"tlc": res.error_text[:4000]})
    LC.finish_traces(ck, xr)
    ck.exhaustive = True


def replay(path):
    doc = json.load(open(path))
    case = unjson(doc["case"]) or {}
    if "page" not in case:
        print("replay: this finding has no realisable arrangement (%s)" % doc.get("key"))
        print(json.dumps(case)[:2000])
        return 0
    rec = {"page": [{"k": k, "bb": bb, "t": t} for k, bb, t in case["page"]], "p": case["p"], "wh": case["wh"]}
    scale = R.Fraction(case.get("scale", "1"))
    cont, chars, items, la = R.analyze_direct(rec, scale, rev=bool(case.get("rev")))
    print("LAParams:", case["p"], "container:", case["wh"], "scale:", scale)
    for e in R.project(cont, chars, items, scale):
        print("  ", e)
    fails = O.c08_failures(cont, list(items), la)
    for key, msg in fails:
        print("C08 predicate fails: %s - %s" % (key, msg))
    if fails:
        print("VIOLATION property=C08 replay=%s" % path)
    return 1 if fails else 0
