"""C20 - geometry helpers obey affine algebra; spatial index Plane equals brute-force search.

A. specs/geom/AffineLaws.tla: TLC enumerates every law instance over the configured matrix/point/rectangle
   domains, performs the helper calls one action at a time and checks MatchesRef / StaysAffine / LawHolds in
   every state; every terminal state is replayed call by call on the real helpers (int, Fraction, float and
   scaled-Fraction arguments) and the laws are evaluated on the real results.
   specs/geom/Plane.tla: TLC enumerates every history of insertions/removals (<= MaxOps) over the configured
   box layouts and every (box, query) pair of the geometry domains, running the intended index and the index as
   coded (named deviations) in lock step against the brute-force reference; every state is replayed on the real
   utils.Plane and its projected state, find() answers for every query, iteration, len and membership are compared.
B. call traces recorded from the real Plane (layout analysis of sample pages; long random workloads at the
   default grid size) and from the real helpers (transformation chains with large integers; integral calls made
   while sample pages are interpreted) are validated by TLC against PlaneTrace.tla / AffineTrace.tla.
"""
import glob
import json
import os
import random
from fractions import Fraction

from ..core import unjson
from ..deviations import active, tla_set
from ..tlc import MachineryError, SPECS, require_coverage, run_tlc, write_cfg
from ..observe import geomrun
from ..observe.geomrun import HELPERS, HelperRecorder, PlaneRecorder, Stub, run_history, trace_for_tlc

AFF_SPEC = os.path.join(SPECS, "geom", "MC_AffineLaws.tla")
PLANE_SPEC = os.path.join(SPECS, "geom", "MC_Plane.tla")
PLANE_TRACE = os.path.join(SPECS, "geom", "PlaneTrace.tla")
AFF_TRACE = os.path.join(SPECS, "geom", "AffineTrace.tla")
ALL_DEVS = ["DrangeTrunc", "SeqKeepsRemoved", "AddNotIdempotent"]

# ------------------------------------------------------------------------------------------ helpers, direction A
# mirror of AffineLaws.Prog / Env0 (self-checked against the names TLC emits)
PROGS = {
    "unit": [("mult", "I", "m", "l"), ("mult", "m", "I", "r")],
    "assoc": [("mult", "a", "b", "ab"), ("mult", "ab", "c", "x"), ("mult", "b", "c", "bc"), ("mult", "a", "bc", "y")],
    "compose": [("mult", "m1", "m0", "m"), ("pt", "m1", "p", "q"), ("pt", "m0", "q", "x"), ("pt", "m", "p", "y"),
                ("norm", "m1", "p", "nq"), ("norm", "m0", "nq", "nx"), ("norm", "m", "p", "ny")],
    "translate": [("translate", "m", "v", "t"), ("mult", "T", "m", "t2"), ("pt", "t", "p", "x"), ("pt", "m", "pv", "y"),
                  ("pt", "t", "O", "o1"), ("pt", "m", "v", "o2")],
    "norm": [("norm", "m", "v", "n"), ("pt", "m", "v", "a"), ("pt", "m", "O", "o")],
    "rect": [("rect", "m", "r", "h"), ("pt", "m", "c1", "k1"), ("pt", "m", "c2", "k2"), ("pt", "m", "c3", "k3"),
             ("pt", "m", "c4", "k4")],
}
INPUTS = {"unit": ["m", "I"], "assoc": ["a", "b", "c"], "compose": ["m1", "m0", "p"],
          "translate": ["m", "v", "p", "pv", "T", "O"], "norm": ["m", "v", "O"], "rect": ["m", "r", "c1", "c2", "c3", "c4"]}
AFF_ACTIONS = ["AMult", "ATranslate", "AApplyPt", "AApplyNorm", "AApplyRect"]
AFF_CFG = {
    "quick": {"MatsUnit": "Q_Unit", "MatsA": "Q_A", "MatsB": "Q_B", "MatsC": "Q_C", "MatsP1": "Q_P1", "MatsP0": "Q_P0",
              "Pts": "Q_Pts", "MatsT": "Q_T", "Vecs": "Q_Vecs", "PtsT": "Q_Pts", "MatsN": "Q_N", "VecsN": "Q_Vecs",
              "MatsR": "Q_R", "Rects": "Q_Rects"},
    "thorough": {"MatsUnit": "T_Unit", "MatsA": "Q_A", "MatsB": "Q_A", "MatsC": "T_C", "MatsP1": "T_P1", "MatsP0": "T_P0",
                 "Pts": "Q_Pts", "MatsT": "T_T", "Vecs": "Q_Vecs", "PtsT": "Q_Pts", "MatsN": "T_N", "VecsN": "Q_Vecs",
                 "MatsR": "T_R", "Rects": "Q_Rects"},
}


def law_holds(law, e):
    """LawHolds of AffineLaws.tla / AffineScaled.tla evaluated on (real) results."""
    if law == "unit":
        return e["l"] == e["m"] and e["r"] == e["m"]
    if law == "assoc":
        return e["x"] == e["y"]
    if law == "compose":
        return e["x"] == e["y"] and e["nx"] == e["ny"]
    if law == "translate":
        return (e["t"] == e["t2"] and e["o1"] == e["o2"] and ("x" not in e or e["x"] == e["y"])
                and ("back" not in e or e["back"] == e["m"]))
    if law == "norm":
        return e["n"] == (e["a"][0] - e["o"][0], e["a"][1] - e["o"][1])
    if law == "rect":
        h = e["h"]
        P = [e["k1"], e["k2"], e["k3"], e["k4"]]
        return (all(h[0] <= p[0] <= h[2] and h[1] <= p[1] <= h[3] for p in P)
                and any(p[0] == h[0] for p in P) and any(p[1] == h[1] for p in P)
                and any(p[0] == h[2] for p in P) and any(p[1] == h[3] for p in P))
    raise MachineryError("unknown law " + law)


S1, S2 = Fraction(7, 3), Fraction(-5, 11)


def scaled_inputs(law, env):
    """a consistent non-integral instance of the same law: points/vectors/rectangles scaled by 7/3, matrix entries
    by -5/11 (identity, origin and the unit part of T stay what they are)"""
    out = {}
    for k in INPUTS[law]:
        v = env[k]
        if k in ("I", "O"):
            out[k] = tuple(v)
        elif k == "T":
            out[k] = (1, 0, 0, 1, v[4] * S1, v[5] * S1)
        elif len(v) == 6:
            out[k] = tuple(x * S2 for x in v)
        else:
            out[k] = tuple(x * S1 for x in v)
    return out


def run_prog(law, inputs):
    e = dict(inputs)
    for fn, x, y, out in PROGS[law]:
        e[out] = tuple(HELPERS[fn](e[x], e[y]))
    return e


# ------------------------------------------------------------------------------------------ helpers at every magnitude
SCALED_SPEC = os.path.join(SPECS, "geom", "MC_AffineScaled.tla")
PROGS_S = dict(PROGS)
PROGS_S["translate"] = [("translate", "m", "v", "t"), ("mult", "T", "m", "t2"), ("pt", "t", "O", "o1"), ("pt", "m", "v", "o2"),
                        ("translate", "t", "nv", "back")]
INPUTS_S = dict(INPUTS)
INPUTS_S["translate"] = ["m", "v", "nv", "T", "O"]
SCALED_CFG = {"quick": {"Mats": "GenQ", "MatsFew": "OneS", "MatsOne": "OneS", "RectOffs": "OffsQ", "Extents": "ExtQ"},
              "thorough": {"Mats": "GenS", "MatsFew": "FewS", "MatsOne": "FewS", "RectOffs": "OffsT", "Extents": "ExtT"}}
MAGNITUDE = Fraction(10 ** 6)          # the value the formal magnitude symbol T of AffineScaled.tla is realised with


def num_value(c, t=MAGNITUDE):
    """7 coefficients for T^-3 .. T^3 -> exact Fraction"""
    return sum((Fraction(x) * t ** (i - 3) for i, x in enumerate(c) if x), Fraction(0))


def scaled_tlc(ck, workers):
    cfgc = {"Laws": "<- AllLaws", "Pts": "<- PtsS", "Rects": "<- RectsS", "Scales": "<- Mags", "OffScales": "<- Far"}
    cfgc.update({k: "<- " + v for k, v in SCALED_CFG[ck.tier].items()})
    cfg = write_cfg(os.path.join(ck.tmp, "c20_scaled.cfg"), constants=cfgc,
                    invariants=["MatchesRef", "LawHolds", "CoeffsSmall", "PlainAgrees"], constraints=["EmitTerminal"])
    emit = os.path.join(ck.tmp, "c20_scaled.ndjson")
    return run_tlc(SCALED_SPEC, cfg, emit=emit, coverage=(ck.tier == "quick"), timeout=7200, workers=workers), emit


def scaled_replay(ck, res, emit):
    """every law instance of AffineScaled.tla on the real helpers, the magnitude symbol realised as the exact fraction
    10^6: components between 10^-18 and 10^18, tiny and huge ones next to ordinary ones"""
    ck.add_tlc(res, "AffineScaled: every law instance over the generator matrices x magnitudes 10^-6, 1, 10^6")
    if not res.ok:
        st = res.error_trace[-1][1] if res.error_trace else {}
        ck.violation("model:" + str(res.violated), "TLC: %s violated on the helpers transcribed over magnitudes (law %s)"
                     % (res.violated, st.get("law", "?")), {"tlc": res.error_text[:4000]})
        return
    if res.actions:
        require_coverage(res, AFF_ACTIONS)
    counts = {}
    n = drift = tiny = huge = far31 = far63 = 0
    per_law = {}
    with open(emit) as f:
        for line in f:
            r = json.loads(line)
            law = r["law"]
            spec = {k: tuple(num_value(c) for c in v) for k, v in r["env"].items()}
            if set(spec) != set(INPUTS_S[law]) | {p[3] for p in PROGS_S[law]}:
                raise MachineryError("harness program table out of step with AffineScaled.Prog for law %s" % law)
            n += 1
            per_law[law] = per_law.get(law, 0) + 1
            inputs = {k: spec[k] for k in INPUTS_S[law]}
            outs = [o for _, _, _, o in PROGS_S[law]]
            vals = [abs(x) for o in outs for x in spec[o] if x]
            tiny += any(x < Fraction(1, 10 ** 9) for x in vals)
            huge += any(x > 10 ** 9 for x in vals)
            if law == "rect":           # all four corner images beyond +-2^31 (+-2^63) on the same side of some axis
                ks = [spec[k] for k in ("k1", "k2", "k3", "k4")]
                for lim, which in ((2 ** 31, 31), (2 ** 63, 63)):
                    if any(all(p[ax] > lim for p in ks) or all(p[ax] < -lim for p in ks) for ax in (0, 1)):
                        if which == 31:
                            far31 += 1
                        else:
                            far63 += 1
            shown = {k: tuple(str(x) for x in v) for k, v in inputs.items()}
            for mode in ("frac", "mixed"):          # mixed: integral values as int, the way PDF numbers arrive
                ins = inputs if mode == "frac" else {k: tuple(int(x) if x.denominator == 1 else x for x in v) for k, v in inputs.items()}
                try:
                    real = dict(ins)
                    for fn, x, y, out in PROGS_S[law]:
                        real[out] = tuple(HELPERS[fn](real[x], real[y]))
                except Exception as ex:
                    capped(ck, counts, "affine:exception:" + type(ex).__name__, "helper raised %r (law %s at magnitudes, %s)" % (ex, law, mode),
                           {"law": law, "scaled_inputs": shown, "mode": mode})
                    continue
                ck.case(1, ("affS", law, tuple(sorted(shown.items()))) if mode == "frac" else None)
                if not law_holds(law, real):
                    bad = [o for o in outs if real[o] != spec[o]]
                    capped(ck, counts, "affine:" + law, "law '%s' fails on the real helpers where components are tiny or huge: inputs %r "
                           "(values differing from the specification: %s, e.g. %s = %r, specification %r)"
                           % (law, shown, bad, bad[0] if bad else "-", tuple(str(x) for x in real[bad[0]]) if bad else "-",
                              tuple(str(x) for x in spec[bad[0]]) if bad else "-"),
                           {"law": law, "scaled_inputs": shown, "mode": mode})
                elif any(real[o] != spec[o] for o in outs):
                    drift += 1
                    if drift <= 5:
                        ck.note("model/code drift at magnitudes (law %s holds on the real values but they differ from the specification's): %r"
                                % (law, shown))
            if per_law[law] == 3:
                ck.sample({"law": law, "magnitude_symbol_T": "10^6", "inputs": shown,
                           "real_values": {o: tuple(str(x) for x in real[o]) for o in outs[:3]}}, limit=16)
    os.remove(emit)
    if n != res.emitted or n == 0:
        raise MachineryError("emitted %d terminal states but replayed %d" % (res.emitted, n))
    if not tiny or not huge or not far31 or not far63:
        raise MachineryError("vacuous magnitude run: %d instances with a component below 1e-9, %d above 1e9, %d / %d rectangles "
                             "with all corner images beyond 2^31 / 2^63 on one side" % (tiny, huge, far31, far63))
    ck.replayed += n
    ck.extra["affine_scaled"] = {"cases_per_law": per_law, "instances_with_component_below_1e-9": tiny,
                                 "instances_with_component_above_1e9": huge, "model_code_drift": drift,
                                 "rect_instances_all_corners_beyond_2^31_on_one_side": far31,
                                 "rect_instances_all_corners_beyond_2^63_on_one_side": far63,
                                 "property_failures_by_key": counts}


def capped(ck, counts, key, what, replay):
    """ck.violation, but at most a dozen replay files per (unknown) key and run; the totals go into evidence"""
    counts[key] = counts.get(key, 0) + 1
    if counts[key] > 12 and not ck.is_known(key):
        return
    ck.violation(key, what, replay)


def affine_tlc(ck, workers):
    cfgc = {"Laws": "<- AllLaws"}
    cfgc.update({k: "<- " + v for k, v in AFF_CFG[ck.tier].items()})
    cfg = write_cfg(os.path.join(ck.tmp, "c20_aff.cfg"), constants=cfgc,
                    invariants=["MatchesRef", "StaysAffine", "LawHolds"], constraints=["EmitTerminal"])
    emit = os.path.join(ck.tmp, "c20_aff.ndjson")
    return run_tlc(AFF_SPEC, cfg, emit=emit, coverage=(ck.tier == "quick"), timeout=7200, workers=workers), emit


def affine_replay(ck, res, emit):
    ck.add_tlc(res, "AffineLaws: every law instance over the %s domains" % ck.tier)
    if not res.ok:
        st = res.error_trace[-1][1] if res.error_trace else {}
        ck.violation("model:" + str(res.violated), "TLC: %s violated on the transcribed helpers (law %s)"
                     % (res.violated, st.get("law", "?")), {"tlc": res.error_text[:4000]})
        return
    if res.actions:
        require_coverage(res, AFF_ACTIONS)
    n = 0
    drift = 0
    counts = {}
    per_law = {}
    modes = (("int", int), ("frac", Fraction), ("float", float))
    with open(emit) as f:
        for line in f:
            r = json.loads(line)
            law = r["law"]
            env = {k: tuple(v) for k, v in r["env"].items()}
            if set(env) != set(INPUTS[law]) | {p[3] for p in PROGS[law]}:
                raise MachineryError("harness program table out of step with AffineLaws.Prog for law %s" % law)
            n += 1
            per_law[law] = per_law.get(law, 0) + 1
            inputs = {k: env[k] for k in INPUTS[law]}
            for mname, conv in modes:
                if mname == "frac" and n % 4 and ck.tier == "thorough":
                    continue
                ins = {k: tuple(conv(x) for x in v) for k, v in inputs.items()}
                try:
                    real = run_prog(law, ins)
                except Exception as ex:  # the helpers are total on numbers
                    capped(ck, counts, "affine:exception:" + type(ex).__name__, "helper raised %r (law %s, %s arguments)"
                                 % (ex, law, mname), {"law": law, "inputs": inputs, "mode": mname})
                    continue
                ck.case(1, None)
                if not law_holds(law, real):
                    bad = [o for _, _, _, o in PROGS[law] if real[o] != env[o]]
                    capped(ck, counts, "affine:" + law, "law '%s' fails on the real helpers with %s arguments %r (values differing "
                                 "from the specification: %s)" % (law, mname, inputs, bad),
                                 {"law": law, "inputs": inputs, "mode": mname,
                                  "observed": {k: repr(v) for k, v in real.items()}, "expected": env})
                elif any(real[o] != env[o] for _, _, _, o in PROGS[law]):
                    drift += 1
                    if drift <= 5:
                        ck.note("model/code drift (law %s holds on the real values but they differ from the specification's): %r"
                                % (law, inputs))
            # a consistent non-integral instance of the same law: the property itself on the real results
            try:
                real = run_prog(law, scaled_inputs(law, env))
                ck.case(1, ("aff", law, tuple(sorted(inputs.items()))))
                if not law_holds(law, real):
                    capped(ck, counts, "affine:" + law, "law '%s' fails on the real helpers with rational arguments scaled from %r"
                                 % (law, inputs), {"law": law, "inputs": inputs, "mode": "scaled"})
            except Exception as ex:
                capped(ck, counts, "affine:exception:" + type(ex).__name__, "helper raised %r (law %s, rational arguments)" % (ex, law),
                             {"law": law, "inputs": inputs, "mode": "scaled"})
            if per_law[law] in (1, 5000):
                ck.sample({"law": law, "inputs": inputs, "spec_values": {o: env[o] for _, _, _, o in PROGS[law]},
                           "real_values_int": {o: run_prog(law, inputs)[o] for _, _, _, o in PROGS[law]}}, limit=10)
    os.remove(emit)
    if n != res.emitted or n == 0:
        raise MachineryError("emitted %d terminal states but replayed %d" % (res.emitted, n))
    ck.replayed += n
    ck.extra["affine_cases_per_law"] = per_law
    ck.extra["affine_model_code_drift"] = drift
    ck.extra["affine_property_failures_by_key"] = counts


# ------------------------------------------------------------------------------------------ Plane, direction A
PLANE_INV = ["LiveOK", "IterInsertionOrder", "FindSound", "FindComplete", "GridCoherent", "FindSetAgrees",
             "ImplLive", "ImplIter", "ImplFindSound", "ImplFindComplete", "ImplSameWhenNoDev"]
PLANE_RUNS = {
    "quick": [("SeqQuick", 4, 1, 1, 2, 2), ("GeoQuick", 2, 0, 1, 1, 1)],          # (setups, MaxOps, MaxDup, MaxRej, MaxOdd, ObsDepth)
    "thorough": [("SeqFull", 6, 2, 1, 2, 3), ("GeoFull", 3, 0, 1, 1, 1)],
}


def has_dup_add(hist):
    live = set()
    for op, o in hist:
        if op == "add":
            if o in live:
                return True
            live.add(o)
        elif op == "remove":
            live.discard(o)
    return False


def has_readd(hist):
    gone = set()
    for op, o in hist:
        if op == "remove":
            gone.add(o)
        elif op == "add" and o in gone:
            return True
    return False


def classify_state(ck, r, real, mode, dev, stats):
    """r: state printed by TLC; real: run_history() result.  Evaluates the C20 predicates on the real answers
    against the brute-force reference printed with the state; attributes failures to a named deviation when the
    real answers are exactly those of the as-coded machine."""
    su, hist, I, M = r["su"], r["h"], r["I"], r["M"]
    failures = []          # (kind, what, the real answer is exactly the as-coded machine's answer)
    live = sorted(I["objs"])
    if real["objs"] != live or real["n"] != len(live) or real["contains"] != live:
        failures.append(("live-set", "live %r len %r contains %r, expected %r" % (real["objs"], real["n"], real["contains"], live), False))
    if real["it"] != r["ri"]:
        failures.append(("iter-order", "iteration %r, insertion order of live objects %r" % (real["it"], r["ri"]), real["it"] == M["it"]))
    for i, got in enumerate(real["f"]):
        may, must = set(r["may"][i]), set(r["must"][i])
        coded = sorted(got) == sorted(M["f"][i])
        if len(set(got)) != len(got) or not set(got) <= may:
            failures.append(("find-unsound", "find(%r) returned %r; live objects overlapping it: %r" % (su["qs"][i], got, sorted(may)), coded))
        if not must <= set(got):
            failures.append(("find-incomplete", "find(%r) returned %r; must contain %r" % (su["qs"][i], got, sorted(must)), coded))
    if not real["pure"]:
        failures.append(("observation-impure", "find/iteration changed the index", False))
    if not real.get("rejected_raised", True):
        stats["no_keyerror"] = stats.get("no_keyerror", 0) + 1
        if stats["no_keyerror"] <= 3:
            ck.note("remove() of an object that is not in the index did not raise KeyError (history %r) - the answers of the "
                    "index are judged all the same" % (hist,))
    gm = {(c[0], c[1]): lst for c, lst in M["grid"]}
    same_as_coded = (real["it"] == M["it"] and [sorted(x) for x in real["f"]] == [sorted(x) for x in M["f"]]
                     and real["objs"] == sorted(M["objs"]))
    exact_as_coded = same_as_coded and real["seq"] == M["seq"] and real["f"] == M["f"] and real["grid"] == gm
    if not exact_as_coded:
        stats["drift"] += 1
        if stats["drift"] <= 5:
            ck.note("Plane model/code drift (%s, %s, history %r): real seq %r grid %r finds %r; as-coded model seq %r grid %r finds %r"
                    % (su["id"], mode, hist, real["seq"], real["grid"], real["f"], M["seq"], gm, M["f"]))
    seen = set()
    for kind, what, as_coded in failures:
        if (kind, as_coded) in seen:
            continue
        seen.add((kind, as_coded))
        key = "plane:" + kind
        if as_coded:      # the failing answer is the one the machine with the listed deviations gives: attribute it
            dup, readd = has_dup_add(hist), has_readd(hist)
            if kind == "find-incomplete" and "DrangeTrunc" in dev:
                key = "dev:DrangeTrunc"
            elif kind == "find-unsound" and "AddNotIdempotent" in dev and dup:
                key = "dev:AddNotIdempotent"
            elif kind == "iter-order" and "AddNotIdempotent" in dev and dup:
                key = "dev:AddNotIdempotent"
            elif kind == "iter-order" and "SeqKeepsRemoved" in dev and readd:
                key = "dev:SeqKeepsRemoved"
        stats["hits"][key] = stats["hits"].get(key, 0) + 1
        if stats["hits"][key] > 12 and not ck.is_known(key):
            continue            # already reported a dozen times with replay files; the count is in evidence
        ck.violation(key, "Plane %s (setup %s, %s coordinates in 1/%d, bounds %r, gridsize %d, boxes %r, history %r): %s"
                     % (kind, su["id"], mode, su["u"], su["pb"], su["g"], su["box"], hist, what),
                     {"kind": "plane", "su": su, "hist": hist, "mode": mode, "ref": {"ri": r["ri"], "may": r["may"], "must": r["must"],
                                                                                      "live": live}})
    return bool(failures)


def plane_tlc(ck, dev, run, workers):
    (setups, maxops, dup, rej, odd, obs) = run
    cfg = write_cfg(os.path.join(ck.tmp, "c20_plane_%s.cfg" % setups),
                    constants={"Setups": "<- " + setups, "MaxOps": maxops, "MaxDup": dup, "MaxRej": rej, "MaxOdd": odd, "ObsDepth": obs,
                               "Dev": tla_set(dev) if dev else "<- NoDev"},
                    invariants=PLANE_INV, properties=["ObservationsPure", "RejectedChangesNothing"], constraints=["EmitState"])
    emit = os.path.join(ck.tmp, "c20_plane_%s.ndjson" % setups)
    return run_tlc(PLANE_SPEC, cfg, emit=emit, coverage=(ck.tier == "quick" and setups.startswith("Seq")), timeout=7200,
                   workers=workers), emit


def plane_replay(ck, dev, runs_done):
    stats = {"drift": 0, "hits": {}}
    for (setups, maxops, dup, rej, odd, obs), (res, emit) in runs_done:
        ck.add_tlc(res, "Plane: %s, histories <= %d, <= %s duplicate adds, <= %s rejected removes, Dev=%s" % (setups, maxops, dup, rej, dev))
        if not res.ok:
            st = res.error_trace[-1][1] if res.error_trace else {}
            ck.violation("model:" + str(res.violated), "TLC: %s violated on the Plane specification (history %s)"
                         % (res.violated, st.get("hist", "?")), {"tlc": res.error_text[:4000]})
            continue
        if res.actions:
            require_coverage(res, ["AAdd", "ARemove", "ARemoveRejected", "AFind", "AIter"])
        n = 0
        modes = ("frac", "float", "mixed")
        with open(emit) as f:
            for line in f:
                r = json.loads(line)
                su = r["su"]
                hist = [tuple(x) for x in r["h"]]
                r["h"] = hist
                n += 1
                for mode in modes:
                    if mode == "mixed" and n % 3:
                        continue
                    try:
                        real = run_history(su, hist, mode)
                    except Exception as ex:
                        ck.violation("plane:exception:" + type(ex).__name__, "Plane raised %r on history %r (setup %s, %s)"
                                     % (ex, hist, su["id"], mode), {"kind": "plane", "su": su, "hist": hist, "mode": mode})
                        continue
                    bad = classify_state(ck, r, real, mode, dev, stats)
                    nq = len(su["qs"])
                    nontriv = any(r["may"][i] for i in range(nq)) and len(hist) >= 1
                    ck.case(nq + 2, ("pl", su["id"], tuple(su["box"][0]) if len(su["box"]) == 1 else 0, tuple(hist)) if nontriv else None)
                    if (n % 4001 == 7 or (bad and len(ck.samples) < 14)) and mode == "frac":
                        ck.sample({"setup": su["id"], "history": hist, "real": {k: (sorted(v.items()) if k == "grid" else v)
                                                                                 for k, v in real.items()},
                                   "spec_intended": {"it": r["I"]["it"], "f": r["I"]["f"]},
                                   "spec_as_coded": {"it": r["M"]["it"], "f": r["M"]["f"]}}, limit=16)
        os.remove(emit)
        if n != res.emitted or n == 0:
            raise MachineryError("emitted %d states but replayed %d" % (res.emitted, n))
        ck.replayed += n
    ck.extra["plane_model_code_drift"] = stats["drift"]
    ck.extra["plane_property_failures_by_key"] = stats["hits"]
    if stats["drift"]:
        ck.note("%d replayed Plane states where the real class and the as-coded machine differ in some observable "
                "(order of find results, grid, seq): spec/code drift, the C20 predicates were evaluated on the real answers"
                % stats["drift"])


def refutations_tlc(ck, dev):
    """The specification must SEE each deviation that is switched on: with the excuse removed TLC has to refute the
    corresponding predicate on the as-coded machine (otherwise the named deviation is vacuous)."""
    strict = {"DrangeTrunc": "StrictImplFindComplete", "SeqKeepsRemoved": "StrictImplIter",
              "AddNotIdempotent": "StrictImplFindSound"}
    for d in dev:
        if d not in strict:
            raise MachineryError("deviation geom:%s is listed in known_findings but unknown to the C20 check" % d)

    def one(d):
        cfg = write_cfg(os.path.join(ck.tmp, "c20_refute_%s.cfg" % d),
                        constants={"Setups": "<- SeqQuick", "MaxOps": 3, "MaxDup": 3, "MaxRej": 0, "MaxOdd": 3, "ObsDepth": 3, "Dev": tla_set([d])},
                        invariants=[strict[d]])
        return run_tlc(PLANE_SPEC, cfg, workers=2, timeout=600)

    return [(d, one(d)) for d in dev]


def refutations_done(ck, results):
    strict = {"DrangeTrunc": "StrictImplFindComplete", "SeqKeepsRemoved": "StrictImplIter",
              "AddNotIdempotent": "StrictImplFindSound"}
    out = {}
    for d, res in results:
        ck.add_tlc(res, "refutation of %s with Dev={%s}" % (strict[d], d))
        if res.ok or res.violated != strict[d]:
            raise MachineryError("TLC does not refute %s with deviation %s switched on - the deviation is vacuous" % (strict[d], d))
        st = res.error_trace[-1][1] if res.error_trace else {}
        out[d] = {"refuted": strict[d], "history": st.get("hist", "?"), "setup": st.get("su", "?")[:200]}
    ck.extra["tlc_refutes_as_coded"] = out


# ------------------------------------------------------------------------------------------ direction B
def layout_traces(ck, rng):
    """Plane call traces from the layout analysis of real sample pages."""
    from pdfminer.high_level import extract_pages
    from pdfminer.layout import LAParams
    files = sorted(glob.glob("/repo/samples/*.pdf") + glob.glob("/repo/samples/contrib/*.pdf")
                   + glob.glob("/repo/samples/nonfree/*.pdf"))
    small = [f for f in files if os.path.getsize(f) < (400_000 if ck.tier == "quick" else 3_000_000)]
    pick = small if ck.tier == "thorough" else rng.sample(small, min(14, len(small)))
    rec = PlaneRecorder(max_events=400 if ck.tier == "quick" else 800).install()
    hrec = HelperRecorder(limit=3000 if ck.tier == "quick" else 20000).install()
    origins = []
    try:
        for fn in pick:
            before = len(rec.traces)
            try:
                for i, _page in enumerate(extract_pages(fn, laparams=LAParams(detect_vertical=True), maxpages=2 if ck.tier == "quick" else 6)):
                    pass
            except Exception:
                pass   # what a sample makes the library raise is other properties' business; the traces so far stay valid
            for j in range(before, len(rec.traces)):
                origins.append("layout:%s#%d" % (os.path.relpath(fn, "/repo"), j - before))
    finally:
        rec.uninstall()
        hrec.uninstall()
    out = []
    for tr, origin in zip(rec.traces, origins):
        if len(tr["ev"]) < 2:
            continue
        t = trace_for_tlc(tr, origin, 0)
        if t is not None:
            out.append(t)
    if ck.tier == "quick" and len(out) > 40:
        out = rng.sample(out, 40)
    return out, hrec


def synthetic_traces(ck, rng, dev):
    """long random workloads on the real Plane at real scale (default grid size 50, page-sized and negative bounds,
    coordinates in 1/8 pt, objects inside, across and outside the bounds, interleaved removals)."""
    n_tr = 10 if ck.tier == "quick" else 40
    out = []
    U8 = 8
    for ti in range(n_tr):
        pb = rng.choice([(0, 0, 612, 792), (-306, -396, 306, 396), (-612, -792, 0, 0), (-100.5, -20.25, 841.875, 1190.5)])
        g = rng.choice([50, 50, 50, 7, 100])
        rec = PlaneRecorder(max_events=10 ** 6).install()
        try:
            from pdfminer.utils import Plane
            plane = Plane(pb, g)
            n_obj = rng.randint(40, 120)
            objs = []

            def coord(lo, hi):
                if lo < 0 and rng.random() < 0.25:       # glyph-sized things hugging an axis of a page whose origin is inside
                    return rng.randint(-24, 8) / U8
                return rng.randint(int(lo * U8) - 400, int(hi * U8) + 400) / U8

            for i in range(n_obj):
                kind = rng.random()
                x0, y0 = coord(pb[0], pb[2]), coord(pb[1], pb[3])
                if kind < 0.5:
                    w, h = rng.randint(0, 400) / U8, rng.randint(0, 160) / U8       # glyph/line sized, sub-cell
                elif kind < 0.8:
                    w, h = rng.randint(0, 3000) / U8, rng.randint(0, 1200) / U8     # spans several cells
                else:
                    w, h = rng.choice([0, 1]) / U8, rng.randint(0, 2000) / U8       # rules, degenerate
                objs.append(Stub(i + 1, (x0, y0, x0 + w, y0 + h)))
            live = []
            gone = []
            allow_readd = ti % 3 == 2
            for step in range(rng.randint(150, 260) if ck.tier == "quick" else rng.randint(300, 700)):
                x = rng.random()
                fresh = [o for o in objs if o not in live and (allow_readd or o not in gone)]
                if x < 0.40 and fresh:
                    o = rng.choice(fresh)
                    plane.add(o)
                    live.append(o)
                elif x < 0.55 and live:
                    o = rng.choice(live)
                    plane.remove(o)
                    live.remove(o)
                    gone.append(o)
                elif x < 0.59:          # a rejected call: remove() of an object that was never added or is gone already
                    cand = [o for o in objs if o not in live]
                    if cand:
                        try:
                            plane.remove(rng.choice(cand))
                        except KeyError:
                            pass
                elif x < 0.92:
                    if live and rng.random() < 0.6:      # neighbourhood of a live object, like find_neighbors/isany
                        o = rng.choice(live)
                        d = rng.randint(0, 400) / U8
                        q = (o.x0 - d, o.y0 - d, o.x1 + d, o.y1 + d) if rng.random() < 0.7 else (o.x0, o.y0 - d, o.x1, o.y1 + d)
                    else:
                        x0, y0 = coord(pb[0], pb[2]), coord(pb[1], pb[3])
                        q = (x0, y0, x0 + rng.randint(0, 4000) / U8, y0 + rng.randint(0, 4000) / U8)
                    list(plane.find(q))
                elif x < 0.97:
                    list(plane)
                else:
                    len(plane)
            list(plane)
        finally:
            rec.uninstall()
        out.append(trace_for_tlc(rec.traces[0], "synthetic:%d pb=%r g=%d objs=%d readd=%s" % (ti, pb, g, n_obj, allow_readd), U8))
    return out


def corrupt_plane_trace(tr):
    """canary: flip one recorded answer (drop one id from a non-empty find result, else change a len)"""
    c = json.loads(json.dumps(tr))
    c["origin"] = "canary(" + c["origin"] + ")"
    for i, e in enumerate(c["ev"]):
        if e["op"] == "find" and e["r"]:
            e["r"] = e["r"][1:]
            c["ev"] = c["ev"][:i + 2]
            return c
    for i, e in enumerate(c["ev"]):
        if e["op"] in ("add", "remove"):
            e["n"] += 1
            c["ev"] = c["ev"][:i + 2]
            return c
    return None


MAX_EVENTS_PER_RUN = 25000      # a batch of traces is one long behaviour, and TLC handles behaviours of < 65536 states


def take_chunk(todo, max_events=MAX_EVENTS_PER_RUN):
    out, n = [], 0
    for t in todo:
        e = len(t["ev"]) + 2
        if out and n + e > max_events:
            break
        out.append(t)
        n += e
    return out


def accepted_with_fewer_deviations(ck, tr, dev):
    """a trace rejected under the listed deviations: is it a behaviour of the specification with a proper subset
    of them switched on?  -> that subset (list) or None"""
    import itertools
    tf = os.path.join(ck.tmp, "c20_ptrace_one.json")
    with open(tf, "w") as f:
        json.dump([tr], f)
    for n in range(len(dev) - 1, -1, -1):
        for sub in itertools.combinations(dev, n):
            cfg = write_cfg(os.path.join(ck.tmp, "c20_ptrace_sub.cfg"), constants={"Dev": tla_set(list(sub)) if sub else "{}"},
                            spec="Spec", invariants=["LiveAgree", "NoDevNoMiss"], deadlock=True)
            res = run_tlc(PLANE_TRACE, cfg, workers=1, env={"TRACE_FILE": tf}, timeout=1800, heap="6g")
            if res.ok:
                return list(sub)
    return None


def validate_plane_traces(ck, traces, dev):
    if not traces:
        raise MachineryError("no Plane traces recorded")
    canary = None
    for tr in sorted(traces, key=lambda t: len(t["ev"])):
        canary = corrupt_plane_trace(tr)
        if canary:
            break
    if canary is None:
        raise MachineryError("no Plane trace with an answer to corrupt")
    cfg = write_cfg(os.path.join(ck.tmp, "c20_ptrace.cfg"), constants={"Dev": tla_set(dev) if dev else "{}"},
                    spec="Spec", invariants=["LiveAgree", "NoDevNoMiss"], deadlock=True)
    todo = [canary] + list(traces)      # the canary goes first: its rejection costs a short error trace
    accepted = 0
    rejected = 0
    canary_rejected = False
    miss = missi = 0
    drifted = 0
    tf = os.path.join(ck.tmp, "c20_ptraces.json")
    while todo:
        batch = take_chunk(todo)
        with open(tf, "w") as f:
            json.dump(batch, f)
        emit = os.path.join(ck.tmp, "c20_ptrace.ndjson")
        res = run_tlc(PLANE_TRACE, cfg, workers=1, env={"TRACE_FILE": tf}, timeout=3600, heap="6g", emit=emit)
        ck.add_tlc(res, "PlaneTrace: validation of %d recorded Plane traces" % len(batch))
        done = {}
        for x in open(emit):          # (TLC re-evaluates actions when it reconstructs an error trace: lines can repeat)
            d = json.loads(x)
            done[d["t"]] = d
        for d in done.values():
            tr = batch[d["t"] - 1]
            if tr is canary:
                continue
            accepted += 1
            miss += d["miss"]
            missi += d["missi"]
        if res.ok:
            todo = todo[len(batch):]
            continue
        if res.violated != "deadlock" or not res.error_trace:
            raise MachineryError("Plane trace validation failed unexpectedly: " + res.error_text[:2000])
        st = res.error_trace[-1][1]
        t, k = int(st["t"]), int(st["k"])
        tr = batch[t - 1]
        if tr is canary:
            canary_rejected = True
        else:
            ev = tr["ev"][k] if k < len(tr["ev"]) else None
            closer = accepted_with_fewer_deviations(ck, tr, dev)
            if closer is not None:
                # the real index is a behaviour of the specification with fewer deviations switched on than
                # known_findings says (all C20 predicates of PlaneTrace held on the recorded answers): spec/code drift
                drifted += 1
                ck.note("recorded Plane trace %s is rejected with Dev=%s but accepted with Dev=%s: the code is closer to the "
                        "intended design than known_findings/C20.json says" % (tr["origin"], dev, closer))
            else:
                rejected += 1
                ck.violation("trace-rejected:plane", "recorded Plane trace %s is not a behaviour of the specification: event #%d %r unexplained"
                             % (tr["origin"], k + 1, ev), {"kind": "plane-trace", "trace": tr, "event_index": k})
        todo = todo[t:]
        if rejected >= 3 and todo:
            ck.note("%d recorded Plane traces left unexamined after 3 rejections" % len(todo))
            break
    if not canary_rejected and rejected < 3:
        raise MachineryError("the corrupted canary trace was accepted by PlaneTrace.tla - trace validation is vacuous")
    ck.traces += accepted
    ck.extra["plane_trace_events"] = sum(len(t["ev"]) for t in traces)
    ck.extra["plane_traces"] = {"layout": sum(1 for t in traces if t["u"] == 0), "synthetic": sum(1 for t in traces if t["u"]),
                                "accepted": accepted, "rejected": rejected, "canary_rejected": canary_rejected,
                                "accepted_only_with_fewer_deviations": drifted,
                                "finds_missing_a_must_object_excused_by_deviation": miss,
                                "iterations_not_in_insertion_order_excused_by_deviation": missi}
    # the property on the recorded runs: excused misses are the known deviations showing at real scale
    if miss:
        ck.violation("dev:DrangeTrunc" if "DrangeTrunc" in dev else "plane:find-incomplete",
                     "recorded real-scale Plane runs: %d find() answers miss an object that properly overlaps the query inside the bounds" % miss,
                     {"kind": "plane-trace-summary", "miss": miss})
    if missi:
        ck.violation("dev:SeqKeepsRemoved" if "SeqKeepsRemoved" in dev else "plane:iter-order",
                     "recorded real-scale Plane runs: %d iterations are not the live objects in insertion order" % missi,
                     {"kind": "plane-trace-summary", "missi": missi})
    for t in traces[:2] + traces[-1:]:
        ck.sample({"trace": t["origin"], "events": len(t["ev"]), "first_events": t["ev"][:3]}, limit=20)


def helper_traces(ck, rng, hrec):
    """helper calls far outside the exhaustive domain"""
    traces = []
    n_tr = 20 if ck.tier == "quick" else 120
    ri = rng.randint
    for ti in range(n_tr):
        ev = []
        for _ in range(12):
            L = rng.choice([(12, 900, 4), (3, 4000, 4), (30, 30, 3), (100, 100, 2)])     # products stay below 2^31
            ms = [tuple(ri(-L[0], L[0]) for _ in range(4)) + (ri(-L[1], L[1]), ri(-L[1], L[1])) for _ in range(rng.randint(2, L[2]))]
            p = (ri(-1000, 1000), ri(-1000, 1000))
            q = p
            for m in ms:
                q = HELPERS["pt"](m, q)
            M = ms[0]
            for m in ms[1:]:
                M = HELPERS["mult"](M, m)
            ev.append({"fn": "chain", "ms": [list(m) for m in ms], "p": list(p), "r": list(q), "m": list(M)})
            ev.append({"fn": "pt", "x": list(M), "y": list(p), "r": list(HELPERS["pt"](M, p))})
        for _ in range(25):
            fn = rng.choice(["mult", "translate", "pt", "norm", "rect"])
            m = tuple(ri(-6000, 6000) for _ in range(6))
            if fn == "mult":
                y = tuple(ri(-6000, 6000) for _ in range(6))
            elif fn == "rect":
                y = tuple(ri(-6000, 6000) for _ in range(4))
            else:
                y = (ri(-6000, 6000), ri(-6000, 6000))
            as_float = rng.random() < 0.5
            cv = float if as_float else int
            r = HELPERS[fn](tuple(cv(v) for v in m), tuple(cv(v) for v in y))
            if any(v != int(v) for v in r):
                raise MachineryError("non-integral helper result on integral arguments")
            ev.append({"fn": fn, "x": list(m), "y": list(y), "r": [int(v) for v in r]})
        traces.append({"origin": "random-int:%d" % ti, "ev": ev})
    real = hrec.ev
    for i in range(0, len(real), 250):
        traces.append({"origin": "sample-pages:%d" % (i // 250), "ev": real[i:i + 250]})
    ck.extra["helper_calls_seen_on_sample_pages"] = hrec.calls
    ck.extra["helper_calls_integral_recorded"] = len(real)
    # canary
    canary = json.loads(json.dumps(traces[0]))
    canary["origin"] = "canary"
    canary["ev"][1]["r"][0] += 1
    cfg = write_cfg(os.path.join(ck.tmp, "c20_atrace.cfg"), spec="Spec", deadlock=True)
    todo = traces + [canary]
    tf = os.path.join(ck.tmp, "c20_atraces.json")
    accepted = rejected = 0
    canary_rejected = False
    while todo:
        batch = take_chunk(todo)
        with open(tf, "w") as f:
            json.dump(batch, f)
        res = run_tlc(AFF_TRACE, cfg, workers=1, env={"TRACE_FILE": tf}, timeout=1800)
        ck.add_tlc(res, "AffineTrace: validation of %d recorded helper-call traces" % len(batch))
        if res.ok:
            accepted += sum(1 for t in batch if t is not canary)
            todo = todo[len(batch):]
            continue
        if res.violated != "deadlock" or not res.error_trace:
            raise MachineryError("helper trace validation failed unexpectedly: " + res.error_text[:2000])
        st = res.error_trace[-1][1]
        t, k = int(st["t"]), int(st["k"])
        accepted += sum(1 for x in batch[:t - 1] if x is not canary)
        tr = batch[t - 1]
        if tr is canary:
            canary_rejected = True
        else:
            rejected += 1
            ck.violation("trace-rejected:affine", "recorded helper call %r (%s) is not what the specification computes"
                         % (tr["ev"][k], tr["origin"]), {"kind": "affine-trace", "event": tr["ev"][k], "origin": tr["origin"]})
        todo = todo[t:]
        if rejected >= 3:
            break
    if not canary_rejected and rejected < 3:
        raise MachineryError("the corrupted canary trace was accepted by AffineTrace.tla - trace validation is vacuous")
    ck.traces += accepted
    ck.extra["helper_traces"] = {"accepted": accepted, "rejected": rejected, "events": sum(len(t["ev"]) for t in traces),
                                 "canary_rejected": canary_rejected}
    ck.sample({"helper_trace": traces[0]["origin"], "first_event": traces[0]["ev"][0]}, limit=20)


def record_b(ck, dev):
    rng = random.Random(ck.seed)
    lay, hrec = layout_traces(ck, rng)
    syn = synthetic_traces(ck, rng, dev)
    return rng, lay, syn, hrec


def validate_b(ck, dev, recorded):
    rng, lay, syn, hrec = recorded
    for t in lay + syn:
        ck.case(len(t["ev"]), ("B", t["origin"]))
    validate_plane_traces(ck, lay + syn, dev)
    helper_traces(ck, rng, hrec)


def tlaps_supplement(ck):
    """unbounded supplement (never deciding): the polynomial laws over all integers with TLAPS/SMT, when tlapm is there"""
    import shutil
    import subprocess
    exe = shutil.which("tlapm")
    if not exe:
        ck.extra["tlaps"] = "tlapm not installed - supplement skipped"
        return
    d = os.path.join(ck.tmp, "tlaps")
    os.makedirs(d, exist_ok=True)
    for m in ("Affine.tla", "AffineProofs.tla"):
        shutil.copy(os.path.join(SPECS, "geom", m), d)
    try:
        p = subprocess.run([exe, "--toolbox", "0", "0", "AffineProofs.tla"], cwd=d, stdout=subprocess.PIPE,
                           stderr=subprocess.STDOUT, text=True, timeout=600)
        out = p.stdout
        proved = out.count("@!!status:proved")
        failed = out.count("@!!status:failed")
        ck.extra["tlaps"] = {"obligations_proved": proved, "failed": failed, "all_proved": "obligations proved" in out and failed == 0,
                             "theorems": ["UnitLaw", "ComposeLaw", "NormLaw", "TranslateLaw", "AssocLaw", "MultMatchesRef"]}
        if failed or "obligations proved" not in out:
            ck.note("TLAPS supplement did not prove every obligation (not deciding): %d proved, %d failed" % (proved, failed))
    except Exception as e:  # the supplement never affects the verdict
        ck.extra["tlaps"] = "tlapm run failed: %r" % (e,)


def run(ck):
    dev = active("geom")
    ck.extra["deviations_modelled_as_coded"] = dev
    ck.rule = ("A (helpers): one evaluation = one law instance run on the real helpers with one kind of number (int, Fraction, "
               "float, scaled Fraction); distinct non-trivial = distinct (law, inputs). A (Plane): one evaluation = one observable "
               "(each find() answer, the iteration, the live set) of one replayed state with one kind of number; distinct "
               "non-trivial = distinct (setup, history) in which some query has a live overlapping object. "
               "B: one evaluation = one recorded call; distinct = distinct recorded trace.")
    ck.assumptions = ["coordinates of the exhaustive Plane runs are multiples of 1/2 or 1/4 (exact in binary64); grid sizes 1 and 2",
                      "arithmetic of int / Fraction / binary64 on exactly representable values is trusted",
                      "for real pages (arbitrary binary64 coordinates) the trace specification sees coordinate ranks and takes the "
                      "cell range of each box as an arithmetic fact recomputed by the harness with exact fractions",
                      "objects given to Plane keep their box while they are in the index and hash by identity"]
    import time
    from concurrent.futures import ThreadPoolExecutor
    phases = {}
    t0 = time.time()
    runs = PLANE_RUNS[ck.tier]
    ncpu = os.cpu_count() or 4
    w_big, w_small = max(2, ncpu * 3 // 8), max(2, ncpu // 4)
    with ThreadPoolExecutor(5) as ex:        # the TLC runs of direction A go side by side; replays happen here, in order
        f_aff = ex.submit(affine_tlc, ck, w_big)
        f_sc = ex.submit(scaled_tlc, ck, w_small)
        f_pl = [ex.submit(plane_tlc, ck, dev, r, w_big if r[0].startswith("Seq") else w_small) for r in runs]
        f_ref = ex.submit(refutations_tlc, ck, dev)
        recorded = record_b(ck, dev)          # recording runs the real code in this process meanwhile
        phases["B_record"] = round(time.time() - t0, 1)
        res, emit = f_aff.result()
        phases["helpers_A_tlc_done_at"] = round(time.time() - t0, 1)
        t1 = time.time()
        affine_replay(ck, res, emit)
        phases["helpers_A_replay"] = round(time.time() - t1, 1)
        res, emit = f_sc.result()
        t1 = time.time()
        scaled_replay(ck, res, emit)
        phases["helpers_scaled_replay"] = round(time.time() - t1, 1)
        done = [(r, f.result()) for r, f in zip(runs, f_pl)]
        phases["plane_A_tlc_done_at"] = round(time.time() - t0, 1)
        t1 = time.time()
        plane_replay(ck, dev, done)
        phases["plane_A_replay"] = round(time.time() - t1, 1)
        refutations_done(ck, f_ref.result())
    t1 = time.time()
    validate_b(ck, dev, recorded)
    phases["B_validate"] = round(time.time() - t1, 1)
    if ck.tier == "thorough":
        tlaps_supplement(ck)
    ck.extra["phase_wall_s"] = phases
    ck.exhaustive = True


def replay(path):
    doc = json.load(open(path))
    case = unjson(doc["case"])
    kind = case.get("kind")
    bad = False
    if kind == "plane":
        su, hist = case["su"], [tuple(x) for x in case["hist"]]
        real = run_history(su, hist, case.get("mode", "frac"))
        ref = case["ref"]
        print("setup %s  history %r" % (su["id"], hist))
        print("iteration %r   (live objects in insertion order: %r)" % (real["it"], ref["ri"]))
        bad |= real["it"] != ref["ri"] or real["objs"] != ref["live"]
        for i, got in enumerate(real["f"]):
            ok = len(set(got)) == len(got) and set(got) <= set(ref["may"][i]) and set(ref["must"][i]) <= set(got)
            print("find(%r) -> %r   may %r must %r  %s" % (su["qs"][i], got, ref["may"][i], ref["must"][i], "ok" if ok else "BAD"))
            bad |= not ok
    elif "law" in case and "scaled_inputs" in case:
        law = case["law"]
        ins = {k: tuple(Fraction(x) for x in v) for k, v in case["scaled_inputs"].items()}
        if case.get("mode") == "mixed":
            ins = {k: tuple(int(x) if x.denominator == 1 else x for x in v) for k, v in ins.items()}
        real = dict(ins)
        for fn, x, y, out in PROGS_S[law]:
            real[out] = tuple(HELPERS[fn](real[x], real[y]))
        for k, v in real.items():
            print("%-4s = %s" % (k, tuple(str(x) for x in v)))
        bad = not law_holds(law, real)
        print("law %s %s" % (law, "FAILS" if bad else "holds"))
    elif "law" in case:
        law = case["law"]
        inputs = {k: tuple(v) for k, v in case["inputs"].items()}
        mode = case.get("mode", "int")
        if mode == "scaled":
            ins = scaled_inputs(law, inputs)
        else:
            conv = {"int": int, "frac": Fraction, "float": float}[mode]
            ins = {k: tuple(conv(x) for x in v) for k, v in inputs.items()}
        real = run_prog(law, ins)
        for k, v in real.items():
            print("%-3s = %r" % (k, v))
        bad = not law_holds(law, real)
        print("law %s %s" % (law, "FAILS" if bad else "holds"))
    else:
        print("this replay file records a rejected trace / TLC counterexample; re-run bin/check C20 to re-validate")
        print(json.dumps(doc["case"], indent=1)[:3000])
        bad = True
    if bad:
        print("VIOLATION property=C20 replay=%s" % path)
    return 1 if bad else 0
