"""C17 - page labels (number trees), outlines with nesting levels, named destinations (name trees, /Dests
dictionary), text-string decoding.

A. TLC enumerates and checks, in every state, five specifications under specs/nav: NumTree.tla (every tree shape over
   every key set: the _parse recursion and the sort), Labels.tla (label ranges x styles x St x prefixes: the label
   generator with its formatters against ISO 32000-1 table 159), NameTree.tla (every tree shape x every query:
   lookup_name with Limits pruning, get_dest with the /Dests dictionary), Outline.tla (every outline forest x every
   target placement: the generator recursion) and TextString.tla (byte strings with and without the byte order
   mark).  Every terminal state is realised as a real PDF (harness/realise/navdoc.py, three physical variants: direct, indirect nodes, single entries indirect) and
   NumberTree.values, get_page_labels(), PDFPage.label, get_dest(), get_outlines() (with the number of live generator
   frames at each yield) and decode_text are compared with the reference result (intended) and the machine's result
   (as coded, with the named deviations).
B. the same calls recorded on the repository's samples and on large generated documents are validated by TLC against
   specs/nav/NavTrace.tla.
"""
from __future__ import annotations

import glob
import json
import logging
import os
import random
import signal
import sys
from io import BytesIO

from ..core import unjson
from ..deviations import active, tla_set
from ..tlc import MachineryError, SPECS, require_coverage, run_tlc, write_cfg
from ..realise import navdoc as ND
from ..observe import nav as OB
from ..observe import dumppdf as DP

NAV = os.path.join(SPECS, "nav")
logging.disable(logging.CRITICAL)

LABEL_DEVS = ("AlphaBijective",)
DEST_DEVS = ("NameVsLimits",)
OUTLINE_DEVS = ("DropsUntargeted", "NextRecurses")
# extended coverage (outside C17's statement): tools/dumppdf.py.  As-coded switches, listed in known_findings/C17.json
# under "dev": "dump:<Name>" like the others, but differences are reported as NOTE lines, never as violations
DUMP_DEVS = ("IndirectActionIgnored", "MissingDestAborts", "RefNotReinterpreted", "NonPageAborts")

# ------------------------------------------------------------------------------------------------ configurations
ALL_STYLES = '{"D", "R", "r", "A", "a", "none"}'
CONFIGS = {
    "quick": {
        "numtree": [dict(NKeys=5, Depth=2, Fan=3)],
        "labels": [
            dict(name="formatters", Starts="{0}", MaxRanges=1, Styles=ALL_STYLES, Prefixes='{""}',
                 Sts="{1, 2, 3, 4, 5, 6, 7, 8, 9, 10, 11, 12, 13, 14, 15, 16, 17, 18, 19, 20, 21, 22, 23, 24, 25, 26, 27, 28, 29, 30}", P=61),
            dict(name="formatters-high", Starts="{0}", MaxRanges=1, Styles='{"R", "r", "A", "a", "D"}', Prefixes='{""}',
                 Sts="{95, 396, 889, 1987, 3990, 674, 700}", P=9),
            dict(name="ranges", Starts="{0, 1, 3}", MaxRanges=2, Styles='{"D", "r", "a", "none"}', Prefixes='{"", "p-"}',
                 Sts="{1, 26}", P=6),
            dict(name="ranges-three", Starts="{0, 2, 3, 5}", MaxRanges=3, Styles='{"D", "none"}', Prefixes='{"", "p-"}',
                 Sts="{1, 7}", P=7),
        ],
        "nametree": [dict(NKeys=5, Depth=2, Fan=3, TreeKeySeqs="<- SomeSeq5", DictKeySets="<- DictSets3", HasTree="<- Bools", HasDict="<- Bools"),
                     dict(NKeys=4, Depth=3, Fan=2, TreeKeySeqs="<- KeySeqs4", DictKeySets="<- DictSets1", HasTree="<- OnlyTrue", HasDict="<- Bools")],
        "outline": [dict(MaxItems=5, Targets='{"Dest", "none"}'), dict(MaxItems=4, Targets='{"Dest", "A", "none"}')],
        "text": [dict(name="bom", Alphabet="<- Alpha16", MaxLen=5, Prefixes="<- BomPrefix"),
                 dict(name="any", Alphabet="<- AlphaDoc", MaxLen=4, Prefixes="<- NoPrefix")],
        "pagelabels": [dict(name="flat", N=6, K=5, E=5, Attrs="<- NoAttrs", Inheritable="<- NoAttrs", OwnSets="<- AllOwnSets", CatAttrs="<- NoAttrs",
                            RootKinds='{"Pages"}', Kinds='{"Page"}', AllowBack="FALSE", PageNoSets="<- PN_Sub5", MaxPagesSet="{0, 1, 2, 3, 4, 5}"),
                       dict(name="tree", N=4, K=3, E=3, Attrs="<- NoAttrs", Inheritable="<- NoAttrs", OwnSets="<- AllOwnSets", CatAttrs="<- NoAttrs",
                            RootKinds='{"Pages"}', Kinds='{"Pages", "Page", "Other"}', AllowBack="TRUE", PageNoSets="<- PN_Sub3", MaxPagesSet="{0, 1, 2}")],
        "dumpoutline": [dict(P=2)],
        "dumpxml": [dict(name="values", Docs="<- OneObject", Codecs="<- AllCodecs"),
                    dict(name="loop", Docs="<- LoopDocsSmall", Codecs="<- AllCodecs")],
    },
    "thorough": {
        "numtree": [dict(NKeys=6, Depth=3, Fan=3)],
        "labels": [
            dict(name="formatters", Starts="{0}", MaxRanges=1, Styles=ALL_STYLES, Prefixes='{""}',
                 Sts="{1, 2, 3, 4, 5, 6, 7, 8, 9, 10, 11, 12, 13, 14, 15, 16, 17, 18, 19, 20, 21, 22, 23, 24, 25, 26, 27, 28, 29, 30}", P=61),
            dict(name="formatters-high", Starts="{0}", MaxRanges=1, Styles='{"R", "r", "A", "a", "D"}', Prefixes='{""}',
                 Sts="{95, 396, 889, 1987, 2990, 3890}", P=100),
            dict(name="letters-high", Starts="{0}", MaxRanges=1, Styles='{"A", "a", "D"}', Prefixes='{""}',
                 Sts="{674, 700, 18250}", P=60),
            dict(name="ranges", Starts="{0, 1, 2, 4}", MaxRanges=3, Styles='{"D", "r", "a", "none"}', Prefixes='{"", "p-"}',
                 Sts="{1, 26}", P=7),
        ],
        "nametree": [dict(NKeys=6, Depth=2, Fan=3, TreeKeySeqs="<- SomeSeq6", DictKeySets="<- DictSets3", HasTree="<- Bools", HasDict="<- Bools"),
                     dict(NKeys=5, Depth=3, Fan=2, TreeKeySeqs="<- KeySeqs5", DictKeySets="<- DictSets1", HasTree="<- OnlyTrue", HasDict="<- Bools")],
        "outline": [dict(MaxItems=6, Targets='{"Dest", "none"}'), dict(MaxItems=5, Targets='{"Dest", "A", "none"}')],
        "text": [dict(name="bom", Alphabet="<- Alpha16", MaxLen=6, Prefixes="<- BomPrefix"),
                 dict(name="any", Alphabet="<- AlphaDocWide", MaxLen=4, Prefixes="<- NoPrefix")],
        "pagelabels": [dict(name="flat", N=7, K=6, E=6, Attrs="<- NoAttrs", Inheritable="<- NoAttrs", OwnSets="<- AllOwnSets", CatAttrs="<- NoAttrs",
                            RootKinds='{"Pages"}', Kinds='{"Page"}', AllowBack="FALSE", PageNoSets="<- PN_Sub6", MaxPagesSet="{0, 1, 2, 3, 4, 5, 6}"),
                       dict(name="tree", N=5, K=3, E=4, Attrs="<- NoAttrs", Inheritable="<- NoAttrs", OwnSets="<- AllOwnSets", CatAttrs="<- NoAttrs",
                            RootKinds='{"Pages"}', Kinds='{"Pages", "Page", "Other"}', AllowBack="TRUE", PageNoSets="<- PN_Sub3", MaxPagesSet="{0, 1, 2, 3}")],
        "dumpoutline": [dict(P=3)],
        "dumpxml": [dict(name="values", Docs="<- OneObject", Codecs="<- AllCodecs"),
                    dict(name="loop", Docs="<- LoopDocs", Codecs="<- AllCodecs")],
    },
}


# ------------------------------------------------------------------------------------------------ helpers
class _Timeout(Exception):
    pass


def _alarm(*a):
    raise _Timeout()


def guarded(site, fn, findings, detail, seconds=20):
    # CPU time of this process, not wall time: the verdict must not depend on how busy the machine is
    old = signal.signal(signal.SIGVTALRM, _alarm)
    signal.setitimer(signal.ITIMER_VIRTUAL, seconds)
    lim = sys.getrecursionlimit()
    try:
        return True, fn()
    except _Timeout:
        findings.append(("no-termination@" + site, "%s used more than %d s of CPU time without returning on %s" % (site, seconds, detail)))
    except RecursionError:
        findings.append(("error:RecursionError@" + site, "%s exhausted the stack on %s" % (site, detail)))
    except Exception as e:      # noqa: BLE001 - any exception is a verdict about the code under test here
        findings.append(("error:%s@%s" % (type(e).__name__, site), "%s raised %r on %s" % (site, e, detail)))
    finally:
        signal.setitimer(signal.ITIMER_VIRTUAL, 0)
        signal.signal(signal.SIGVTALRM, old)
        sys.setrecursionlimit(lim)
    return False, None


MAX_FILED = 150


def report(ck, key, what, replay):
    """ck.violation, but after MAX_FILED unknown violations the rest are only counted (a broken tree fails tens of
    thousands of replayed cases; one replay file each would fill the disk)"""
    if not ck.is_known(key) and len(ck.violations) >= MAX_FILED:
        ck.extra["violations_counted_but_not_filed"] = ck.extra.get("violations_counted_but_not_filed", 0) + 1
        return True
    return ck.violation(key, what, replay)


def known_keys(pid):
    import json as _json
    p = os.path.join(os.path.dirname(os.path.dirname(os.path.dirname(os.path.abspath(__file__)))), "known_findings", pid + ".json")
    try:
        return {e["key"] for e in _json.load(open(p)) if e.get("status") == "known"}
    except OSError:
        return set()


def proper_subsets(dev):
    """the proper subsets of the deviations in force, largest first (closest to the code as known)"""
    import itertools
    out = []
    for n in range(len(dev) - 1, -1, -1):
        out += [list(c) for c in itertools.combinations(dev, n)]
    return out


def read_emitted(path):
    seen, out = set(), []
    with open(path) as f:
        for line in f:
            if line not in seen:
                seen.add(line)
                out.append(json.loads(line))
    return out


def pool(n=None):
    import multiprocessing
    return multiprocessing.get_context("fork").Pool(n or min(12, os.cpu_count() or 2))


_G = {}


def _chunk(args):
    fn, lo, hi = args
    out = []
    for i in range(lo, hi):
        out.append((i,) + _EVAL[fn](_G["items"][i], i))
    return out


def note_extended(ck, key, what):
    """extended coverage (outside the property's statement): a counter per key, the first case of each as a NOTE"""
    ext = ck.extra.setdefault("extended_coverage", {})
    ext[key] = ext.get(key, 0) + 1
    if ext[key] == 1:
        ck.note("EXTENDED-COVERAGE %s: %s" % (key, what[:600]))


def fan_out(ck, kind, items, replay_of):
    """evaluates every item in the worker pool; reports findings; -> (drift, evaluated)"""
    if not items:
        return 0
    _G["items"] = items
    step = max(10, min(500, len(items) // 48 + 1))
    tasks = [(kind, lo, min(lo + step, len(items))) for lo in range(0, len(items), step)]
    drift = 0
    with pool() as p:
        for res in p.imap_unordered(_chunk, tasks):
            for i, findings, d, n, nontrivial, sample in res:
                drift += d
                for key, what in findings:
                    if key.startswith("extended:"):
                        note_extended(ck, key[len("extended:"):], what)
                    else:
                        report(ck, key, what, replay_of(items[i], i))
                ck.case(n, (kind, i) if nontrivial else None)
                ck.replayed += n
                if sample is not None and not findings:
                    ck.sample(sample, limit=10)
    return drift


def spec_job(tmp, module, consts, invariants, properties, actions, label, emit, dev=(), coverage=False, specdir=None):
    """TLC on one configuration: the intended model (Dev = {}) with the invariants, and - when deviations are in force
    - the as-coded one, whose terminal states are emitted.  Runs in a worker thread: touches nothing shared.
    -> dict(runs=[(res, label)], recs | None, violated=(key, what, text) | None, need=actions)"""
    runs = [("intended", [])] + ([("as-coded", list(dev))] if dev else [])
    out = {"runs": [], "recs": None, "violated": None, "need": actions, "label": label}
    for which, dv in runs:
        c = dict(consts)
        if dev is not None:
            c["Dev"] = tla_set(dv) if dv else "<- NoDev"
        emitting = which == runs[-1][0]
        cfg = write_cfg(os.path.join(tmp, "c17_%s_%s.cfg" % (label.replace(" ", "_").replace('"', "").replace("{", "").replace("}", "").replace(",", ""), which)),
                        constants=c, invariants=invariants, properties=properties,
                        constraints=["EmitTerminal"] if emitting else [], deadlock=True)
        res = run_tlc(os.path.join(specdir or NAV, module + ".tla"), cfg, emit=emit if emitting else None,
                      coverage=coverage and which == "intended", workers=4, timeout=7200, env={"JAVA_TOOL_OPTIONS": "-Xss16m"})
        out["runs"].append((res, "%s %s Dev=%s" % (label, which, dv)))
        if not res.ok:
            st = res.error_trace[0][1] if res.error_trace else {}
            out["violated"] = ("model:%s:%s" % (module, res.violated), "TLC: %s violated on the %s %s model (%s)"
                               % (res.violated, which, module, {k: v[:200] for k, v in list(st.items())[:6]}), res.error_text[:4000])
            return out
        if emitting:
            out["recs"] = read_emitted(emit)
            os.remove(emit)
    return out


def account(ck, job):
    """main thread: TLC statistics into the evidence, vacuity guard, model-level violations -> records or None"""
    for res, label in job["runs"]:
        ck.add_tlc(res, label)
        if res.ok and res.actions:
            require_coverage(res, job["need"])
    if job["violated"]:
        key, what, text = job["violated"]
        ck.violation(key, what, {"kind": "tlc", "tlc": text})
        return None
    if not job["recs"]:
        raise MachineryError("%s emitted no terminal state" % job["label"])
    return job["recs"]


def caching_of(i):
    """PDFDocument(caching=...) of case i: objects kept (the default) or parsed anew on every access"""
    return i % 2 == 0


def physical(kind, i):
    """the physical variant of case i: 0 direct, 1 indirect nodes / values, 2 a subset of the single entries (/S /P /St,
    keys, arrays, /Limits elements, /Title, /A ...) written as indirect references - the subset changes from case
    to case (every subset comes up, all of them at once included).  The specification's expectation is the same
    for all of them: indirectness is transparent (ISO 32000-1 7.3.10)."""
    n = len(ND.ENTRY_CLASSES[kind])
    return i % 3, ((i // 3) * 7 + 2 ** n - 1) % (2 ** n)


# ================================================================================================ number trees
def eval_numtree(rec, i):
    findings, drift = [], 0
    tree = rec["tree"]
    npages = 8
    variant, mask = physical("numtree", i)
    data, meta = ND.numtree_doc(tree, npages, variant, mask)
    detail = "number tree %s (variant %d, indirect entries %s, caching=%s)" % (json.dumps(tree), variant, sorted(meta["deep"]), caching_of(i))
    ok, doc = guarded("PDFDocument", lambda: OB.open_doc(data, caching=caching_of(i)), findings, detail)
    if not ok:
        return findings, 0, 1, False, None
    ok, vals = guarded("NumberTree.values", lambda: OB.NumberTree(doc.catalog["PageLabels"]).values, findings, detail)
    keys = None
    if ok:
        keys = [k for k, _ in vals]
        if keys != rec["ref"]:
            findings.append(("numtree:values", "NumberTree.values has keys %s, the tree holds %s: %s" % (keys, rec["ref"], detail)))
        elif keys != rec["values"]:
            drift += 1
    # the labels these ranges give: page i belongs to the greatest key <= i
    want = []
    for pg in range(npages):
        below = [k for k in rec["ref"] if k <= pg]
        want.append("k%d-%d" % (below[-1], 1 + pg - below[-1]) if below else "")
    prefix_only = [w.split("-")[0] + "-" if w else "" for w in want]       # what an ignored /S leaves
    ok, labels = guarded("get_page_labels", lambda: OB.page_labels(doc, npages), findings, detail)
    if ok and labels != want:
        if "S" in meta["deep"] and labels == prefix_only:
            findings.append(("indirect:label-style", "get_page_labels() gives %s, expected %s: %s" % (labels, want, detail)))
        else:
            findings.append(("numtree:labels", "get_page_labels() gives %s, expected %s: %s" % (labels, want, detail)))
    ok, plabels = guarded("PDFPage.label", lambda: [p.label for p in OB.PDFPage.create_pages(OB.open_doc(data, caching=caching_of(i)))], findings, detail)
    if ok and plabels != want and not ("S" in meta["deep"] and plabels == prefix_only):
        findings.append(("numtree:page.label", "PDFPage.label gives %s, expected %s: %s" % (plabels, want, detail)))
    if i % 3 == 0:
        # settings.STRICT = True: `values` checks the order instead of sorting - a valid tree reads the same
        from pdfminer import settings
        was = settings.STRICT
        settings.STRICT = True
        try:
            ok, svals = guarded("NumberTree.values@STRICT", lambda: OB.NumberTree(OB.open_doc(data, caching=caching_of(i)).catalog["PageLabels"]).values,
                                findings, detail + " settings.STRICT=True")
            if ok and [k for k, _ in svals] != rec["ref"]:
                findings.append(("numtree:values@STRICT", "NumberTree.values has keys %s under STRICT, the tree holds %s: %s" % ([k for k, _ in svals], rec["ref"], detail)))
            if rec["ref"] and rec["ref"][0] == 0:
                ok, slabels = guarded("get_page_labels@STRICT", lambda: OB.page_labels(OB.open_doc(data, caching=caching_of(i)), npages), findings, detail + " settings.STRICT=True")
                if ok and slabels != want and not ("S" in meta["deep"] and slabels == prefix_only):
                    findings.append(("numtree:labels@STRICT", "get_page_labels() gives %s under STRICT, expected %s: %s" % (slabels, want, detail)))
        finally:
            settings.STRICT = was
    sample = {"number_tree": tree, "variant": variant, "expected_keys": rec["ref"], "observed_keys": keys, "labels": labels} if i % 97 == 0 else None
    return findings, drift, 1, not tree["leaf"], sample


# ================================================================================================ labels
def eval_labels(rec, i):
    findings, drift = [], 0
    vals, ref, out = rec["vals"], rec["ref"], rec["out"]
    fired = set(rec["fired"])
    P = len(ref)
    variant, mask = physical("labels", i)
    data, meta = ND.labels_doc(vals, P, variant, mask)
    detail = "label ranges %s (variant %d, indirect entries %s, caching=%s)" % (json.dumps(vals), variant, sorted(meta["deep"]), caching_of(i))
    ok, doc = guarded("PDFDocument", lambda: OB.open_doc(data, caching=caching_of(i)), findings, detail)
    if not ok:
        return findings, 0, 1, False, None
    ok, labels = guarded("get_page_labels", lambda: OB.page_labels(doc, P), findings, detail)
    if ok:
        if labels is None or len(labels) != P:
            findings.append(("label:count", "get_page_labels() gives %r for %d pages: %s" % (labels, P, detail)))
        else:
            for j in range(P):
                if labels[j] == ref[j]:
                    continue
                rng = [r for r in vals if r["start"] <= j]
                style = rng[-1]["style"] if rng else "none"
                if "S" in meta["deep"] and style != "none" and rng and labels[j] == rng[-1]["prefix"]:
                    findings.append(("indirect:label-style", "page %d is labelled %r, expected %r (%s)" % (j, labels[j], ref[j], detail)))
                elif labels[j] == out[j] and (j + 1) in fired:
                    findings.append(("dev:AlphaBijective", "page %d is labelled %r, ISO 32000-1 table 159 gives %r (%s)" % (j, labels[j], ref[j], detail)))
                else:
                    findings.append(("label:style=%s" % style, "page %d is labelled %r, expected %r (%s)" % (j, labels[j], ref[j], detail)))
                    break
        ok, plabels = guarded("PDFPage.label", lambda: [p.label for p in OB.PDFPage.create_pages(OB.open_doc(data, caching=caching_of(i)))], findings, detail)
        if ok and plabels != labels:
            findings.append(("label:page.label", "PDFPage.label gives %s, get_page_labels() %s: %s" % (plabels, labels, detail)))
    clean = not fired and not [f for f in findings]
    if clean and i % 3 == 0 and vals and vals[0]["start"] == 0:
        # the same labels with settings.STRICT = True (a tree that begins at 0, with /Kids in variants 1 and 2)
        from pdfminer import settings
        was = settings.STRICT
        settings.STRICT = True
        try:
            ok, slabels = guarded("get_page_labels@STRICT", lambda: OB.page_labels(OB.open_doc(data, caching=caching_of(i)), P), findings, detail + " settings.STRICT=True")
            if ok and slabels != ref:
                findings.append(("label:strict", "get_page_labels() gives %s under settings.STRICT, expected %s (%s)" % (slabels, ref, detail)))
        finally:
            settings.STRICT = was
    if clean and i % 4 == 1:
        # the page tree cannot be walked (damaged /Pages root): create_pages recovers the pages by scanning the
        # cross-reference table; the k-th page it produces carries label(k) all the same
        mode = ("missing", "untyped", "other-type")[(i // 4) % 3]
        bdata, _ = ND.labels_doc(vals, P, variant, mask, broken_root=mode)
        ok, rec_labels = guarded("PDFPage.create_pages", lambda: [p.label for p in OB.PDFPage.create_pages(OB.open_doc(bdata, caching=caching_of(i)))],
                                 findings, detail + " /Pages root %s" % mode)
        if ok and rec_labels != ref:
            findings.append(("label:recovered-pages", "with the /Pages root %s the %d recovered pages are labelled %s, label(k) of the k-th page is %s (%s)"
                             % (mode, len(rec_labels), rec_labels, ref, detail)))
    nontrivial = any(r["style"] != "none" or r["prefix"] for r in vals)
    sample = {"ranges": vals, "variant": variant, "expected": ref[:12], "observed": (labels or [])[:12]} if i % 397 == 0 else None
    return findings, drift, 1, nontrivial, sample


# ================================================================================================ destinations
def eval_dests(group, i):
    """group: the records (one per query) that share one document"""
    findings, drift = [], 0
    r0 = group[0]
    variant, mask = physical("dests", i)
    data, meta = ND.dests_doc(r0["tree"], r0["hastree"], r0["dict"], r0["hasdict"], variant, mask=mask)
    nkeys = meta["nkeys"]
    deep = meta["deep"]
    detail = "name tree %s dict %s (variant %d, indirect entries %s)" % (json.dumps(r0["tree"]) if r0["hastree"] else None,
                                                                        sorted(r0["dict"]) if r0["hasdict"] else None, variant, sorted(deep)) \
        + " caching=%s" % caching_of(i)
    ok, doc = guarded("PDFDocument", lambda: OB.open_doc(data, caching=caching_of(i)), findings, detail)
    if not ok:
        return findings, 0, len(group), False, None
    page_index = {objid: n for n, objid in enumerate(meta["pages"])}
    seen = []
    from pdfminer import settings
    passes = [(False, doc)]
    if i % 3 == 0:
        passes.append((True, None))         # the same lookups with settings.STRICT = True: same values, absent -> not found
    for strict, sdoc in passes:
      was = settings.STRICT
      settings.STRICT = strict
      try:
        if sdoc is None:
            ok, sdoc = guarded("PDFDocument", lambda: OB.open_doc(data, caching=caching_of(i)), findings, detail + " STRICT")
            if not ok:
                continue
        findings += _dest_queries(sdoc, group, meta, page_index, nkeys, deep, detail + (" settings.STRICT=True" if strict else ""), seen if not strict else [],
                                  "@STRICT" if strict else "")
      finally:
        settings.STRICT = was
    sample = {"name_tree": r0["tree"] if r0["hastree"] else None, "dests_dict_keys": sorted(r0["dict"]) if r0["hasdict"] else None,
              "variant": variant, "queries": [[q, rec["ref"], real] for (q, real), rec in list(zip(seen, group))[:6]]} if i % 97 == 0 else None
    return findings, drift, len(group) * len(passes), bool(r0["hastree"] and not r0["tree"]["leaf"]), sample


def _dest_queries(doc, group, meta, page_index, nkeys, deep, detail, seen, suffix):
    findings = []
    for rec in group:
        q = rec["q"]
        key = meta["keys"][q["id"]] if q["kind"] == "string" else meta["keys"][q["id"]].decode()
        ok, r = guarded("get_dest" + suffix, lambda: OB.ask_dest(doc, key), findings, "%s key %r" % (detail, key))
        if not ok:
            continue
        if r[0] == "value":
            pg = page_index.get(OB.dest_page(doc, r[1]))
            real = ["tree", pg] if pg is not None and pg <= nkeys else ["dict", pg - nkeys] if pg is not None else ["?", repr(r[1])]
        else:
            real = r[0]
        seen.append((q, real))
        if real == rec["ref"]:
            continue
        if real == rec["result"] and rec["fired"]:
            for dname in rec["fired"]:
                findings.append(("dev:" + dname, "get_dest(%r) gives %s, expected %s (%s)" % (key, real, rec["ref"], detail)))
        elif q["kind"] == "string" and "lim" in deep and real == "TypeError":
            findings.append(("indirect:name-tree-limits", "get_dest(%r) gives %s, expected %s (%s)" % (key, real, rec["ref"], detail)))
        elif q["kind"] == "string" and "key" in deep and real == "NotFound" and isinstance(rec["ref"], list) and rec["ref"][0] == "tree":
            findings.append(("indirect:name-tree-keys", "get_dest(%r) gives %s, expected %s (%s)" % (key, real, rec["ref"], detail)))
        else:
            findings.append(("dest:%s:%s%s" % (q["kind"], real if isinstance(real, str) else real[0], suffix),
                             "get_dest(%r) gives %s, expected %s (%s)" % (key, real, rec["ref"], detail)))
    return findings


# ================================================================================================ outlines
def eval_outline(rec, i):
    findings, drift = [], 0
    n, lev, tgt = rec["n"], rec["lev"], rec["tgt"]
    if n == 0:
        lev, tgt = [], []
    fired = set(rec["fired"])
    variant, mask = physical("outline", i)
    data, meta = ND.outline_doc(n, lev, tgt, variant, mask)
    detail = "outline levels %s targets %s (variant %d, indirect entries %s, caching=%s)" % (lev, tgt, variant, sorted(meta["deep"]), caching_of(i))
    ok, doc = guarded("PDFDocument", lambda: OB.open_doc(data, caching=caching_of(i)), findings, detail)
    if not ok:
        return findings, 0, 1, False, None
    ok, got = guarded("get_outlines", lambda: OB.outlines_with_frames(doc), findings, detail)
    if not ok:
        return findings, 0, 1, False, None
    title_of = lambda j: ND.outline_title(j, variant, meta["deep"])     # noqa: E731
    shown = [[lv, t] for (lv, t, _d, _a, _f) in got]
    want_t = [[e[0], title_of(e[1])] for e in rec["ref"]]
    coded_t = [[e[0], title_of(e[1])] for e in rec["out"]]
    want = [[e[0], e[1]] for e in rec["ref"]]
    coded = [[e[0], e[1]] for e in rec["out"]]
    # items are recognised by position (titles may be empty): the reported (level, title) sequence is the reference's,
    # the as-coded machine's, or neither
    real = want if shown == want_t else coded if shown == coded_t else [[lv, ("?", t)] for lv, t in shown]
    if real != want:
        if real == coded and "DropsUntargeted" in fired:
            findings.append(("dev:DropsUntargeted", "get_outlines() reports %s, the outline holds %s (%s)" % (shown, want_t, detail)))
        else:
            key = ("outline:level" if [x[1] for x in shown] == [x[1] for x in want_t] else
                   "outline:title" if len(shown) == len(want_t) and [x[0] for x in shown] == [x[0] for x in want_t] else "outline:items")
            findings.append((key, "get_outlines() reports %s, expected %s (%s)" % (shown, want_t, detail)))
    if real in (want, coded):
        coded_frames = {e[1]: e[2] for e in rec["out"]}
        for (lv, t, dest, action, frames), (_, item) in zip(got, real):
            kind = "Dest" if dest is not None else "A" if action is not None else "none"
            if kind != tgt[item - 1]:
                findings.append(("outline:target", "item %d is reported with %s, it has %s (%s)" % (item, kind, tgt[item - 1], detail)))
            if frames == lv + 1:
                continue                    # as many live generator frames as the nesting asks for
            if "NextRecurses" in fired and frames == coded_frames.get(item):
                findings.append(("dev:NextRecurses", "item %d at level %d is produced with %d live generator frames (%s)" % (item, lv, frames, detail)))
            else:
                findings.append(("outline:frames", "item %d at level %d is produced with %d live generator frames, the model has %s (%s)"
                                 % (item, lv, frames, coded_frames.get(item), detail)))
    sample = {"levels": lev, "targets": tgt, "variant": variant, "expected": want, "observed": real,
              "frames": [g[4] for g in got]} if i % 997 == 0 else None
    return findings, drift, 1, n > 1, sample


# ================================================================================================ text strings
def eval_text(rec, i):
    findings, drift = [], 0
    data = bytes(rec["data"])
    ok, s = guarded("decode_text", lambda: OB.decode_text(data), findings, "bytes %r" % data)
    if not ok:
        return findings, 0, 1, False, None
    real = [ord(c) for c in s]
    if rec["claimed"]:
        if real != rec["ref"]:
            findings.append(("decode:%s" % ("utf16" if data[:2] == b"\xfe\xff" else "pdfdoc"),
                             "decode_text(%r) gives code points %s, expected %s" % (data, real, rec["ref"])))
    elif real != rec["out"]:
        drift += 1
    if rec["claimed"] and i % 41 == 0 and data:
        # the same bytes as the Title of an outline item, read back through the parser and get_outlines
        from ..realise.pdfwriter import Name, Ref
        o = ND._Objs(1)
        rid, iid = o.reserve(), o.reserve()
        o.objs[rid] = {"Type": Name("Outlines"), "First": Ref(iid), "Last": Ref(iid), "Count": 1}
        o.objs[iid] = {"Title": data, "Parent": Ref(rid), "Dest": [Ref(3), Name("Fit")]}
        pdf = o.finish({"Outlines": Ref(rid)}, i % 2)
        ok, got = guarded("get_outlines", lambda: list(OB.open_doc(pdf).get_outlines()), findings, "Title %r" % data)
        if ok and [[ord(c) for c in g[1]] for g in got] != [rec["ref"]]:
            findings.append(("decode:title", "an outline Title %r comes out as %r, expected code points %s" % (data, got, rec["ref"])))
    sample = {"bytes": list(data), "expected": rec["ref"], "observed": real} if (rec["claimed"] and i % 1499 == 0) else None
    return findings, drift, 1, bool(rec["claimed"] and len(data) > 2), sample


# ================================================================================================ labels of selected pages
def eval_pagelabels(rec, i):
    """one terminal state of specs/pages/PageTree.tla (document graph x page_numbers x maxpages), realised with a
    /PageLabels tree: a page carries the label of its zero-based index in document order, also when get_pages
    leaves pages out"""
    from ..realise import pagetree as RT
    findings = []
    variant = i % 2
    data, meta = RT.realise(rec["g"], rec["cat"], (), variant, i % 7, labels=True)
    pagenos, maxpages = sorted(rec["pagenos"]), rec["maxpages"]
    detail = "graph %s page_numbers=%s maxpages=%d (variant %d)" % (json.dumps([[n["kind"], n["kids"]] for n in rec["g"]]), pagenos, maxpages, variant)
    ok, pages = guarded("PDFPage.create_pages", lambda: list(OB.PDFPage.create_pages(OB.open_doc(data, caching=caching_of(i)))), findings, detail)
    if not ok:
        return findings, 0, 1, False, None
    want_all = [RT.label_of_index(p["lab"]) for p in rec["ref"]]
    got_all = [p.label for p in pages]
    if len(pages) == len(rec["ref"]) and got_all != want_all:
        findings.append(("label:page-index", "create_pages labels the pages %s, label(i) of their indices is %s (%s)" % (got_all, want_all, detail)))
    index_of = {p.pageid: n for n, p in enumerate(pages)}
    pn_arg = (set(pagenos) if variant == 0 else list(pagenos)) if pagenos else None
    ok, sel = guarded("PDFPage.get_pages", lambda: list(OB.PDFPage.get_pages(BytesIO(data), pn_arg, maxpages=maxpages)), findings, detail)
    if ok:
        for p in sel:
            orig = index_of.get(p.pageid)
            if orig is not None and p.label != RT.label_of_index(orig):
                findings.append(("label:original-index", "get_pages(page_numbers=%s, maxpages=%d) yields the page of index %d with label %r, "
                                 "label(%d) is %r (%s)" % (pagenos, maxpages, orig, p.label, orig, RT.label_of_index(orig), detail)))
                break
        # the machine's bookkeeping (which label each yielded page carries) against the code
        if [index_of.get(p.pageid) for p in sel] == rec["yielded"] and [p.label for p in sel] != [RT.label_of_index(x) for x in rec["ylabs"]]:
            findings.append(("label:original-index", "labels of the yielded pages %s differ from the model's %s (%s)"
                             % ([p.label for p in sel], [RT.label_of_index(x) for x in rec["ylabs"]], detail)))
    dropped = len(rec["refsel"]) != len(rec["ref"])
    sample = {"graph": [[n["kind"], n["kids"]] for n in rec["g"]], "page_numbers": pagenos, "maxpages": maxpages,
              "labels_of_yielded_pages": [p.label for p in sel] if ok else None, "expected": [RT.label_of_index(x) for x in rec["refsel"]]} if i % 499 == 0 else None
    return findings, 0, 1, dropped and len(rec["refsel"]) > 0, sample


# ================================================================================================ tools/dumppdf.py
def extended(findings, key, what):
    """a difference outside C17's statement: reported as NOTE (extended coverage), never as a violation"""
    findings.append(("extended:" + key, what))


def eval_dumpoutline(rec, i):
    """one terminal state of DumpPdf.tla: the item's /Dest, /A and what its name stands for"""
    findings, drift = [], 0
    data = ND.dumpoutline_doc(rec["dest"], rec["a"], rec["nv"], npages=rec["np"])
    detail = "outline item with /Dest %s /A %s, name -> %s" % (json.dumps(rec["dest"]), json.dumps(rec["a"]), json.dumps(rec["nv"]))
    ok, res = guarded("dumpoutline", lambda: DP.run_dumpoutline(data), findings, detail)
    if not ok:
        return findings, 0, 1, False, None
    items, err, text = res
    # inside the statement: the entries with their levels in document order (when the run is not cut short)
    if err == "none" and [(x["level"], x["title"]) for x in items] != [(1, "One"), (1, "Two")]:
        findings.append(("dumpoutline:items", "dumpoutline lists %s, the outline holds One and Two at level 1 (%s)" % (items, detail)))
    real = (err, items[0]["pageno"] if items else 0)
    want = ("none", rec["ref"])
    coded = (rec["err"], rec["pageno"])
    if real != want:
        if real == coded and rec["fired"]:
            for dname in rec["fired"]:
                extended(findings, dname, "dumpoutline gives %s for an %s; the destination resolves to page %s" % (real, detail, rec["ref"] or None))
        else:
            extended(findings, "unexplained:dumpoutline", "dumpoutline gives (error, page) = %s, the specification %s as coded and %s as intended, for an %s"
                     % (real, coded, want, detail))
    if err == "none" and len(items) == 2 and items[1]["pageno"] != rec["np"]:
        extended(findings, "unexplained:dumpoutline", "the second item shows page %s, expected %d (%s)" % (items[1]["pageno"], rec["np"], detail))
    sample = {"Dest": rec["dest"], "A": rec["a"], "name_stands_for": rec["nv"], "expected_page": rec["ref"], "observed": list(real)} if i % 97 == 0 else None
    return findings, drift, 1, rec["dest"]["k"] != "none" or rec["a"]["k"] != "none", sample


def writer_value(v):
    """an object record of DumpXmlOps.tla as a value for the PDF writer"""
    from ..realise.pdfwriter import Name, Raw, Ref, Stream
    k = v["k"]
    if k == "null":
        return None
    if k == "bool":
        return bool(v["b"])
    if k == "num":
        txt = "".join(chr(c) for c in v["txt"])
        return float(txt) if "." in txt else int(txt)
    if k == "str":
        return bytes(v["s"])
    if k == "lit":
        return Name("".join(chr(c) for c in v["s"]))
    if k == "kw":
        return Raw(bytes(v["s"]))
    if k == "ref":
        return Ref(v["id"])
    if k == "list":
        return [writer_value(x) for x in v["items"]]
    if k == "dict":
        return {"".join(chr(c) for c in key): writer_value(x) for key, x in v["items"]}
    if k == "stream":
        return Stream(writer_value(v["attrs"]), bytes(v["data"]))
    raise MachineryError("unknown object record %r" % (v,))


def eval_dumpxml(rec, i):
    """one terminal state of DumpXml.tla.  One section / one object: dumpxml on a real object built from the record.
    Several sections: a real file with incremental updates through dumpallobjs."""
    findings, drift = [], 0
    doc, codec = rec["doc"], rec["codec"]
    pcodec = None if codec == "none" else codec
    single = len(doc["xrefs"]) == 1 and doc["xrefs"][0]["ids"] == [1] and len(doc["objs"]) == 1
    if single:
        val = doc["objs"][0]
        detail = "object %s, codec %s" % (json.dumps(val)[:300], codec)
        ok, res = guarded("dumpxml", lambda: DP.run_dumpxml(DP.build_object(val), pcodec), findings, detail)
        if not ok:
            return findings, 0, 1, False, None
        text, err = res
        if rec["err"] != "none":
            if err != rec["err"]:
                extended(findings, "unexplained:dumpxml", "dumpxml ends with %s, the specification with %s (%s)" % (err, rec["err"], detail))
            else:
                for dname in rec["fired"]:
                    if dname == "RawBinaryTypeError":
                        extended(findings, dname, "dumpxml with codec %s raises TypeError on a stream" % codec)
        elif not [e for e in rec["out"] if e["id"] == 1]:
            pass        # a null object is left out by dumpallobjs; dumpxml(None) is covered inside the containers
        else:
            want = DP.render([e for e in rec["out"] if e["id"] == 1][0]["toks"])
            if err is not None or text != want:
                extended(findings, "unexplained:dumpxml", "dumpxml writes %r (error %s), the specification %r (%s)" % (text[:200], err, want[:200], detail))
            elif "MarkupInNames" in rec["fired"]:
                extended(findings, "MarkupInNames", "dumpxml writes a key / name with raw markup characters: %r" % text[:120])
        sample = {"object": val, "codec": codec, "written": text[:200], "error": err} if i % 211 == 0 else None
        return findings, drift, 1, val["k"] in ("list", "dict", "stream", "str"), sample
    # ---- the loop over sections
    values = [writer_value(v) for v in doc["objs"]]
    data = ND.objects_doc(doc["xrefs"], values)
    detail = "sections %s objects %s codec %s" % ([x["ids"] for x in doc["xrefs"]], [v["k"] for v in doc["objs"]], codec)
    ok, res = guarded("dumpallobjs", lambda: DP.run_dumpallobjs(data, pcodec), findings, detail)
    if not ok:
        return findings, 0, 1, False, None
    _pdfdoc, text, err = res
    if rec["err"] != "none" or err:
        if (err or "none") != rec["err"]:
            extended(findings, "unexplained:dumpallobjs", "dumpallobjs ends with %s, the specification with %s (%s)" % (err, rec["err"], detail))
        return findings, drift, 1, True, None
    blocks, well = DP.split_objects(DP.tokenize(text))
    if not well:
        extended(findings, "unexplained:dumpallobjs", "the output of dumpallobjs is not a sequence of <object> / <trailer> blocks (%s)" % detail)
    got_ids = [b[0] - 10 for b in blocks if b[0] > 10] + [b[0] for b in blocks if b[0] < 0]
    want_ids = [e["id"] for e in rec["out"]]
    if got_ids != want_ids:
        extended(findings, "unexplained:dumpallobjs", "dumpallobjs writes test objects / trailers %s, the specification %s (%s)" % (got_ids, want_ids, detail))
    else:
        by_id = {b[0] - 10: b[1] for b in blocks if b[0] > 10}
        for e in rec["out"]:
            if e["id"] > 0 and DP.render(by_id[e["id"]]) != DP.render(e["toks"]):
                extended(findings, "unexplained:dumpallobjs", "object %d is written as %r, the specification has %r (%s)"
                         % (e["id"], DP.render(by_id[e["id"]])[:160], DP.render(e["toks"])[:160], detail))
                break
    sample = {"sections": doc["xrefs"], "objects": [v["k"] for v in doc["objs"]], "codec": codec, "written_ids": got_ids} if i % 499 == 0 else None
    return findings, drift, 1, len(doc["xrefs"]) > 1, sample


_EVAL = {"pagelabels": eval_pagelabels, "dumpoutline": eval_dumpoutline, "dumpxml": eval_dumpxml, "numtree": eval_numtree, "labels": eval_labels, "dests": eval_dests, "outline": eval_outline, "text": eval_text}


# ================================================================================================ direction A
def direction_a(ck, dev):
    st = ND.self_check()
    if st:
        raise MachineryError("PDFDocEncoding transcription self-check failed: " + st)
    conf = CONFIGS[ck.tier]
    quick = ck.tier == "quick"
    drift = 0
    counts = {}
    ldev = [d for d in dev if d in LABEL_DEVS]
    ddev = [d for d in dev if d in DEST_DEVS]
    odev = [d for d in dev if d in OUTLINE_DEVS]
    from concurrent.futures import ThreadPoolExecutor
    jobs = []       # (kind, name, future)
    with ThreadPoolExecutor(max_workers=4) as ex:
        def submit(kind, name, *a, **kw):
            jobs.append((kind, name, ex.submit(spec_job, ck.tmp, *a, **kw)))
        for n, c in enumerate(conf["numtree"]):
            submit("numtree", "numtree", "NumTree", c, ["Flattened", "InOrder"], [], ["NEnter", "NKid", "NReturn", "NSort"],
                   "number trees NKeys=%(NKeys)d Depth=%(Depth)d Fan=%(Fan)d" % c, os.path.join(ck.tmp, "nt%d.ndjson" % n), dev=None, coverage=quick)
        for n, c in enumerate(conf["labels"]):
            c = dict(c)
            name = c.pop("name")
            submit("labels", "labels:" + name, "MC_Labels", c, ["LabelRef", "RomanDomain"], ["Progress"], ["LStart", "LRange", "LEmit", "LStop"],
                   "labels " + name, os.path.join(ck.tmp, "lb%d.ndjson" % n), dev=ldev, coverage=quick and name == "ranges-three")
        for n, c in enumerate(conf["nametree"]):
            submit("dests", "dest-queries", "MC_NameTree", c, ["DestRef", "OneLeaf", "PathShaped"], ["Progress"],
                   ["DStart", "KPrune", "KLeafHit", "KLeafMiss", "KKids", "KKid", "KExhausted", "KReturnToLoop", "KReturnToTop", "DFallback"],
                   "name trees NKeys=%(NKeys)d Depth=%(Depth)d Fan=%(Fan)d" % c, os.path.join(ck.tmp, "nm%d.ndjson" % n), dev=ddev,
                   coverage=quick and c["Fan"] == 3)
        for n, c in enumerate(conf["outline"]):
            submit("outline", "outlines", "MC_Outline", c, ["OutlinePreorder", "LevelsRight", "StackByNesting"], ["Progress"],
                   ["OVisit", "OFirst", "ONext", "OReturn"], "outlines MaxItems=%(MaxItems)d Targets=%(Targets)s" % c,
                   os.path.join(ck.tmp, "ol%d.ndjson" % n), dev=odev, coverage=quick and c["MaxItems"] == 4)
        for n, c in enumerate(conf["text"]):
            c = dict(c)
            name = c.pop("name")
            submit("text", "text:" + name, "MC_TextString", c, ["DecodeRule"], ["ModeStable", "Progress"],
                   ["TBomTest", "TUnit", "TEnd"] + (["TOddTail"] if name == "bom" else ["TDocByte"]),
                   "text strings " + name, os.path.join(ck.tmp, "tx%d.ndjson" % n), dev=None, coverage=quick)
        pdev = [d for d in active("pages") if d in ("ContinueSkipsMax", "CatalogInherits")]
        for n, c in enumerate(conf["pagelabels"]):
            c = dict(c)
            name = c.pop("name")
            submit("pagelabels", "pagelabels:" + name, "MC_PageTree", c,
                   ["TypeOK", "DFSOrder", "VisitedOnce", "Selection", "SelectionSane", "LabelByIndex"], ["Progress"],
                   ["AReveal", "AEnterPages", "AEnterPage", "ALoopKid", "ALoopEnd", "ASelSkip", "ASelYield"], "labels of selected pages " + name,
                   os.path.join(ck.tmp, "pl%d.ndjson" % n), dev=pdev, coverage=quick, specdir=os.path.join(SPECS, "pages"))
        xdev = [d for d in active("dump") if d in DUMP_DEVS]
        for n, c in enumerate(conf["dumpoutline"]):
            submit("dumpoutline", "dumpoutline", "MC_DumpPdf", c, ["Resolution", "NeverWrongPage", "RunShape"], ["Progress"],
                   ["DTest", "RName", "RDict", "RRef", "PLookup", "AAction"], "dumpoutline P=%(P)d" % c,
                   os.path.join(ck.tmp, "do%d.ndjson" % n), dev=xdev, coverage=quick)
        for n, c in enumerate(conf["dumpxml"]):
            c = dict(c)
            name = c.pop("name")
            submit("dumpxml", "dumpxml:" + name, "MC_DumpXml", c, ["EachObjectOnce", "Total", "WellFormed", "EscapeSound"], ["Progress"],
                   ["ADumpObj", "ANextXref", "AToTrailers", "ATrailer", "AEnd"] + (["ASkipVisited", "ASkipNull"] if name == "loop" else []),
                   "dumpxml " + name, os.path.join(ck.tmp, "dx%d.ndjson" % n), dev=None, coverage=quick)
        # the terminal states of each finished model are replayed while the others are still being checked
        for kind, name, fut in jobs:
            recs = account(ck, fut.result())
            if not recs:
                continue
            counts[name] = counts.get(name, 0) + len(recs)
            if kind == "dumpoutline":
                np_of = {c2["P"] for c2 in conf["dumpoutline"]}
                for r in recs:
                    r["np"] = max(np_of) if len(np_of) == 1 else r.get("np", max(np_of))
            if kind == "dests":
                groups = {}
                for r in recs:
                    groups.setdefault(json.dumps([r["tree"], r["hastree"], sorted(r["dict"]), r["hasdict"]]), []).append(r)
                groups = list(groups.values())
                counts["dest-documents"] = counts.get("dest-documents", 0) + len(groups)
                drift += fan_out(ck, "dests", groups, lambda g, i: {"kind": "dests", "group": g, "i": i})
            else:
                drift += fan_out(ck, kind, recs, lambda r, i, kind=kind: {"kind": kind, "rec": r, "i": i})
    # ---- the PDFDocEncoding table as data (supplementary: not model checking)
    table_diff = [b for b in range(256) if ND.DOC_TABLE[b] != -1 and ord(OB.decode_text(bytes([b]))) != ND.DOC_TABLE[b]]
    ck.extra["pdfdocencoding_table_cross_check"] = {"bytes_defined_by_annex_D": sum(1 for v in ND.DOC_TABLE if v != -1),
                                                    "differences": table_diff}
    for b in table_diff:
        ck.violation("data:PDFDocEncoding[0x%02x]" % b, "PDFDocEncoding byte 0x%02x decodes to U+%04X, Annex D.2 says U+%04X"
                     % (b, ord(OB.decode_text(bytes([b]))), ND.DOC_TABLE[b]), {"kind": "text", "rec": {"data": [b], "claimed": True, "ref": [ND.DOC_TABLE[b]], "out": []}, "i": 1})
    ck.extra["terminal_states_by_model"] = counts
    ck.extra["model_code_drift"] = drift
    if drift:
        ck.note("%d observations where the real code and the as-coded machine differ outside the property's clauses" % drift)


# ================================================================================================ direction B
PASSWORDS = {"aes-128.pdf": "foo", "aes-128-m.pdf": "foo", "aes-256.pdf": "foo", "aes-256-m.pdf": "foo",
             "aes-256-r6.pdf": "usersecret", "rc4-128.pdf": "foo", "rc4-40.pdf": "foo"}


def big_nav_document(rng, kind, size):
    """documents far outside the bounded space: hundreds of label ranges in a deep number tree, name trees with
    hundreds of keys, outlines with long sibling chains and deep nesting"""
    from ..realise.pdfwriter import Name, Ref
    if kind == "labels":
        o = ND._Objs(size)
        starts = sorted(rng.sample(range(1, size), min(size - 1, size // 4)))
        pairs = []
        for s in [0] + starts:
            style = rng.choice(["D", "R", "r", "A", "a", None])
            d = {}
            if style:
                d["S"] = Name(style)
            if rng.random() < 0.5:
                d["P"] = ND.encode_text(rng.choice(["A-", "App. ", "•", "Ł-", "§ "]), utf16=rng.random() < 0.5)
            if rng.random() < 0.6:
                d["St"] = rng.choice([1, 2, 9, 26, 27, 99, 490, 3000])
            pairs.append((s, o.new(d) if rng.random() < 0.5 else d))

        def node(ps, depth, root=False):
            d = {}
            if len(ps) <= 4 or depth == 0:
                d["Nums"] = [x for p in ps for x in p]
            else:
                k = rng.choice([2, 3, 5])
                step = -(-len(ps) // k)
                d["Kids"] = [o.new(node(ps[j:j + step], depth - 1)) for j in range(0, len(ps), step)]
            if not root:
                d["Limits"] = [ps[0][0], ps[-1][0]]
            return d
        return o.finish({"PageLabels": o.new(node(pairs, 4, root=True))}, 0)
    if kind == "dests":
        o = ND._Objs(3)
        keys = sorted({bytes(rng.choice(b"ABab.\xe9 ") for _ in range(rng.randrange(1, 6))) for _ in range(size)})
        pairs = [(k, [Ref(3 + j % 3), Name("XYZ"), j, 0, 0]) for j, k in enumerate(keys)]

        def node(ps, depth, root=False):
            d = {}
            if len(ps) <= 5 or depth == 0:
                d["Names"] = [x for p in ps for x in p]
            else:
                k = rng.choice([2, 3, 7])
                step = -(-len(ps) // k)
                d["Kids"] = [o.new(node(ps[j:j + step], depth - 1)) for j in range(0, len(ps), step)]
            if not root:
                d["Limits"] = [ps[0][0], ps[-1][0]]
            return d
        cat = {"Names": {"Dests": o.new(node(pairs, 4, root=True))}}
        if rng.random() < 0.7:
            cat["Dests"] = {k.decode("latin-1"): [Ref(3), Name("Fit")] for k in rng.sample(keys, min(5, len(keys))) if k.isalnum()}
            cat["Dests"]["Intro"] = [Ref(4), Name("Fit")]
        return o.finish(cat, 0)
    if kind == "outline":
        lev = [1]
        while len(lev) < size:
            lev.append(rng.choice([l for l in range(1, lev[-1] + 2) if l <= 12] + [1, 1]))
        tgt = [rng.choice(["Dest", "Dest", "A", "none"]) for _ in lev]
        return ND.outline_doc(len(lev), lev, tgt, rng.randrange(2))[0]
    if kind == "chain":
        return ND.outline_doc(size, [1] * size, ["Dest"] * size, 0)[0]
    raise ValueError(kind)


def record_all(ck):
    rng = random.Random(ck.seed)
    files = sorted(glob.glob("/repo/samples/**/*.pdf", recursive=True))
    if not files:
        raise MachineryError("no sample PDFs under /repo/samples")
    sources = [("sample:" + os.path.relpath(f, "/repo"), open(f, "rb").read(), PASSWORDS.get(os.path.basename(f), "")) for f in files]
    big = [("labels", 300), ("dests", 400), ("outline", 500), ("chain", 1500), ("labels", 40), ("dests", 30), ("outline", 60)]
    if ck.tier == "thorough":
        big += [("labels", 2000), ("dests", 3000), ("outline", 4000), ("chain", 5000)] + [(k, rng.randrange(20, 400)) for k in ("labels", "dests", "outline") for _ in range(8)]
    for j, (kind, size) in enumerate(big):
        sources.append(("generated:%s:%d:#%d" % (kind, size, j), big_nav_document(rng, kind, size), ""))
    docs, outside = [], {}
    for name, data, pw in sources:
        try:
            tr = OB.record_document(data, name, password=pw)
        except OB.Unsupported as e:
            outside[name] = str(e)
            continue
        except Exception as e:      # noqa: BLE001 - a sample the library cannot open at all is C10 / C13's business
            outside[name] = "%s: %s" % (type(e).__name__, e)
            continue
        if tr["labels"] or tr["outlines"] or tr["dests"]:
            docs.append(tr)
    return docs, outside


def _trace_run(ck, docs, dv, tag):
    table = [ND.DOC_TABLE[b] if ND.DOC_TABLE[b] != -1 else ord(OB.decode_text(bytes([b]))) for b in range(256)]
    tf = os.path.join(ck.tmp, "c17_trace_%s.json" % tag)
    with open(tf, "w") as f:
        json.dump({"doctable": table, "docs": docs}, f)
    cfg = write_cfg(os.path.join(ck.tmp, "c17_trace_%s.cfg" % tag), constants={"Dev": tla_set(dv) if dv else "{}"}, spec="Spec",
                    invariants=["LevelsBounded", "Matched"], deadlock=True)
    res = run_tlc(os.path.join(NAV, "NavTrace.tla"), cfg, workers=1, env={"TRACE_FILE": tf, "JAVA_TOOL_OPTIONS": "-Xss256m"},
                  timeout=3600, heap="6g")
    if not res.ok and (res.violated != "deadlock" or not res.error_trace):
        raise MachineryError("navigation trace validation failed unexpectedly: " + res.error_text[:2000])
    return res


def explain_rejection(doc, st, dev):
    """which part of the recorded document the specification does not explain (diagnostic text only)"""
    phase = st.get("phase", "").strip('"')
    if phase == "outline":
        k = int(st.get("k", "0"))
        ol = doc["outlines"][0]
        return "outline: after %d of %d recorded items the generator machine is at %s; next recorded item %s" % (
            k, len(ol["out"]), st.get("stack", "")[-160:], ol["out"][k] if k < len(ol["out"]) else "(none)")
    what = {"labels": "the recorded page labels are not the ones the label generator gives for the re-derived number tree",
            "dests": "a recorded get_dest result is not what lookup_name / get_dest give on the re-derived name tree and /Dests dictionary",
            "texts": "a recorded decode_text result is not the decoding of its bytes"}
    return what.get(phase, "phase %s" % phase)


def validate(ck, docs, dev):
    """-> number of rejected documents (each reported).  The as-coded model (known deviations in force) first; when it
    does not explain everything, the intended model is tried on the same documents (a repaired deviation is no alarm)"""
    todo = list(docs)
    rejected = 0
    first = True
    while todo:
        res = _trace_run(ck, todo, dev, "coded")
        ck.add_tlc(res, "recorded navigation traces (%d documents)" % len(todo))
        if res.ok:
            break
        if first and dev:
            first = False
            explained = None
            for sub in proper_subsets(dev):
                res2 = _trace_run(ck, todo, sub, "sub")
                ck.add_tlc(res2, "recorded navigation traces against the model with deviations %s (%d documents)" % (sub, len(todo)))
                if res2.ok:
                    explained = sub
                    break
            if explained is not None:
                ck.note("the recorded documents follow the model with deviations %s only, where %s are listed as known (repaired in this tree?)" % (explained, dev))
                break
        st = res.error_trace[-1][1]
        dnum = int(st["d"])
        doc = todo[dnum - 1]
        todo = todo[dnum:]
        rejected += 1
        ck.violation("trace-rejected:" + st.get("phase", "?").strip('"'),
                     "recorded calls on %s are not a behaviour of the navigation specification: %s" % (doc["name"], explain_rejection(doc, st, dev)),
                     {"kind": "trace", "name": doc["name"], "doc": doc if len(json.dumps(doc)) < 300000 else None})
        if rejected >= 5:
            rejected += len(todo)
            break
    return rejected


def direction_b(ck, dev):
    docs, outside = record_all(ck)
    if len(docs) < 10:
        raise MachineryError("only %d documents with labels / outlines / destinations could be recorded (%s)" % (len(docs), outside))
    # a run of get_outlines cut short by the interpreter's recursion limit on a long sibling chain: the named deviation
    for dct in docs:
        for ol in dct["outlines"]:
            if ol["err"] == "RecursionError":
                chain = max_chain(ol["items"])
                ck.violation("dev:NextRecurses" if chain > 300 else "error:RecursionError@get_outlines",
                             "get_outlines() raised RecursionError on %s after %d items (longest sibling chain %d)" % (dct["name"], len(ol["out"]), chain),
                             {"kind": "trace", "name": dct["name"], "doc": None})
    rej = validate(ck, docs, [d for d in dev if d in LABEL_DEVS + DEST_DEVS + OUTLINE_DEVS])
    ck.traces += len(docs) - rej
    for dct in docs:
        n = sum(len(x["out"]) for x in dct["labels"]) + sum(len(x["out"]) for x in dct["outlines"]) + sum(len(x["queries"]) for x in dct["dests"]) + len(dct["texts"])
        ck.case(n, ("B", dct["name"]) if n > 3 else None)
    ck.extra["recorded_documents"] = len(docs)
    ck.extra["recorded_labels"] = sum(len(x["out"]) for dct in docs for x in dct["labels"])
    ck.extra["recorded_outline_items"] = sum(len(x["out"]) for dct in docs for x in dct["outlines"])
    ck.extra["recorded_dest_queries"] = sum(len(x["queries"]) for dct in docs for x in dct["dests"])
    ck.extra["recorded_text_strings"] = sum(len(dct["texts"]) for dct in docs)
    ck.extra["documents_outside_domain"] = outside
    # ---- extended coverage: tools/dumppdf.py
    ddocs, doutside = record_dumppdf(ck)
    drej = validate_dumppdf(ck, ddocs)
    ck.traces += len(ddocs) - drej
    for dct in ddocs:
        n = len(dct["outline"]["items"]) + sum(len(dm["objs"]) for dm in dct["dumps"])
        ck.case(n, ("Bdump", dct["name"]) if n > 3 else None)
    ck.extra["dumppdf_recorded_documents"] = len(ddocs)
    ck.extra["dumppdf_recorded_outline_items"] = sum(len(dct["outline"]["items"]) for dct in ddocs)
    ck.extra["dumppdf_recorded_objects_given_to_the_model"] = sum(len(dm["objs"]) for dct in ddocs for dm in dct["dumps"])
    ck.extra["dumppdf_recorded_objects_not_given"] = sum(dm["skipped"] for dct in ddocs for dm in dct["dumps"])
    ck.extra["dumppdf_documents_outside_domain"] = doutside
    hit = sorted({dct["name"] for dct in ddocs for it, o in zip(dct["outline"]["items"], dct["outline"]["out"])
                  if it["a"]["k"] == "ref" and it["dest"]["k"] == "none" and o["pageno"] == 0 and dct["name"].startswith("sample:")})
    if hit:
        ck.extra["samples_whose_outline_loses_page_numbers_to_indirect_actions"] = hit
        note_extended(ck, "IndirectActionIgnored@samples", "dumpoutline writes no page number for the items of %s: their /A is an indirect reference" % ", ".join(hit))
    smp = [dct for dct in docs if dct["name"].startswith("sample:") and dct["labels"]]
    if smp:
        ck.sample({"trace": smp[0]["name"], "labels": smp[0]["labels"][0]["out"][:8], "outline": [o["out"][:3] for o in smp[0]["outlines"]],
                   "dest_queries": [x["queries"][:3] for x in smp[0]["dests"]]})


# ---- tools/dumppdf.py on the samples its own tests use (tests/test_tools_dumppdf.py) and on the samples with outlines
DUMP_SAMPLES = ["simple1.pdf", "simple2.pdf", "simple3.pdf", "jo.pdf", "nonfree/dmca.pdf", "nonfree/f1040nr.pdf", "nonfree/i1040nr.pdf",
                "nonfree/kampo.pdf", "nonfree/naacl06-shinyama.pdf",
                "contrib/pagelabels.pdf", "contrib/issue-1082-annotations.pdf", "encryption/encrypted_doc_no_id.pdf", "simple5.pdf"]


def record_dumppdf(ck):
    st = DP.self_check()
    if st:
        raise MachineryError("dumppdf tokenizer self-check failed: " + st)
    rng = random.Random(ck.seed + 17)
    quick = ck.tier == "quick"
    sources = []
    for rel in DUMP_SAMPLES:
        f = os.path.join("/repo/samples", rel)
        if os.path.exists(f):
            sources.append(("sample:samples/" + rel, open(f, "rb").read(), ""))
    if len(sources) < 9:
        raise MachineryError("the samples of tests/test_tools_dumppdf.py are missing")
    # generated: every spelling of a destination among a few hundred outline items
    for j in range(2 if quick else 8):
        sources.append(("generated:dumpoutline:#%d" % j, big_dump_document(rng, 40 if quick else 300), ""))
    docs, outside = [], {}
    for name, data, pw in sources:
        try:
            ol, np_, n_items = DP.record_outline(data, pw)
            dumps = []
            for codec in ((None, "text") if quick else (None, "text", "raw", "binary")):
                dumps.append(DP.record_dump(data, codec, pw, max_objects=25 if quick else 400, max_size=500 if quick else 4000))
            if quick and name.endswith("simple1.pdf"):
                dumps.append(DP.record_dump(data, "raw", pw))
        except DP.NotAbstractable as e:
            outside[name] = str(e)
            continue
        docs.append({"name": name, "np": np_, "outline": ol, "dumps": dumps})
        # inside C17's statement: dumpoutline lists the entries get_outlines gives, with their levels, in order
        want = [(it["level"], it["title"]) for it in ol["items"]]
        got = [(o["level"], o["title"]) for o in ol["out"]]
        if (ol["err"] == "none" and got != want) or got != want[:len(got)]:
            ck.violation("dumpoutline:items", "dumpoutline lists %s ..., get_outlines gives %s ... on %s" % (got[:6], want[:6], name),
                         {"kind": "dumptrace", "name": name, "doc": None})
    return docs, outside


def big_dump_document(rng, n):
    from ..realise.pdfwriter import Name, Ref
    o = ND._Objs(6)
    root_id = o.reserve()
    ids = [o.reserve() for _ in range(n)]
    names = []
    dests = {}
    for j in range(n):
        pg = Ref(o.page_ids[rng.randrange(6)])
        arr = [pg, Name("XYZ"), 0, j, 0]
        form = rng.choice(["arr", "arr-ind", "str", "str-dict", "lit", "dict", "act", "act-ind", "act-str", "uri", "none", "none"])
        item = {"Title": ("Item %d <&>" % j).encode(), "Parent": Ref(root_id)}
        if form == "arr":
            item["Dest"] = arr
        elif form == "arr-ind":
            item["Dest"] = o.new(arr)
        elif form in ("str", "str-dict"):
            key = b"d%04d" % j
            names.append((key, {"D": arr} if form == "str-dict" else o.new(arr)))
            item["Dest"] = key
        elif form == "lit":
            dests["n%d" % j] = arr
            item["Dest"] = Name("n%d" % j)
        elif form == "dict":
            item["Dest"] = {"D": o.new(arr)}
        elif form == "act":
            item["A"] = {"S": Name("GoTo"), "D": arr}
        elif form == "act-ind":
            item["A"] = o.new({"S": Name("GoTo"), "D": arr})
        elif form == "act-str":
            key = b"a%04d" % j
            names.append((key, arr))
            item["A"] = {"S": Name("GoTo"), "D": key}
        elif form == "uri":
            item["A"] = {"S": Name("URI"), "URI": b"http://example.invalid/%d" % j}
        if j + 1 < n:
            item["Next"] = Ref(ids[j + 1])
        if j:
            item["Prev"] = Ref(ids[j - 1])
        o.objs[ids[j]] = item
    o.objs[root_id] = {"Type": Name("Outlines"), "First": Ref(ids[0]), "Last": Ref(ids[-1]), "Count": n}
    names.sort()
    cat = {"Outlines": Ref(root_id), "Dests": dests, "Names": {"Dests": o.new({"Names": [x for p in names for x in p]})}}
    return o.finish(cat, 0)


def validate_dumppdf(ck, docs):
    """DumpPdfTrace.tla over the recorded runs.  Everything here is outside C17's statement: a document the
    specification does not explain is reported as NOTE (extended coverage) and counted."""
    xdev = [d for d in active("dump") if d in DUMP_DEVS]
    todo = list(docs)
    rejected = 0
    first = True

    def run(dv, tag):
        tf = os.path.join(ck.tmp, "c17_dump_%s.json" % tag)
        with open(tf, "w") as f:
            json.dump(todo, f)
        cfg = write_cfg(os.path.join(ck.tmp, "c17_dump_%s.cfg" % tag), constants={"Dev": tla_set(dv) if dv else "{}"}, spec="Spec",
                        invariants=["InRange"], deadlock=True)
        res = run_tlc(os.path.join(NAV, "DumpPdfTrace.tla"), cfg, workers=1, env={"TRACE_FILE": tf, "JAVA_TOOL_OPTIONS": "-Xss256m"},
                      timeout=3600, heap="6g")
        if not res.ok and (res.violated != "deadlock" or not res.error_trace):
            raise MachineryError("dumppdf trace validation failed unexpectedly: " + res.error_text[:2000])
        return res
    while todo:
        res = run(xdev, "coded")
        ck.add_tlc(res, "recorded dumppdf runs (%d documents)" % len(todo))
        if res.ok:
            break
        if first and xdev:
            first = False
            explained = None
            for sub in proper_subsets(xdev):
                res2 = run(sub, "sub")
                ck.add_tlc(res2, "recorded dumppdf runs against the model with deviations %s (%d documents)" % (sub, len(todo)))
                if res2.ok:
                    explained = sub
                    break
            if explained is not None:
                ck.note("the recorded dumppdf runs follow the model with deviations %s only, where %s are listed (repaired in this tree?)" % (explained, xdev))
                break
        st = res.error_trace[-1][1]
        dnum, phase, j = int(st["d"]), st.get("phase", "?").strip('"'), int(st.get("j", "0"))
        doc = todo[dnum - 1]
        todo = todo[dnum:]
        rejected += 1
        if phase == "outline":
            it = doc["outline"]["items"]
            what = "item %d %s; dumpoutline wrote %s (run ended with %s)" % (
                j, it[j - 1] if j <= len(it) else "(end)", doc["outline"]["out"][j - 1] if j <= len(doc["outline"]["out"]) else "(nothing)", doc["outline"]["err"])
        else:
            dm = doc["dumps"][j - 1] if j <= len(doc["dumps"]) else {}
            what = "dumpallobjs run %d (codec %s, %d objects given to the model, ended with %s)" % (j, dm.get("codec"), len(dm.get("objs", ())), dm.get("err"))
        note_extended(ck, "trace-rejected:dumppdf:" + phase, "recorded run of tools/dumppdf.py on %s is not a behaviour of the specification: %s" % (doc["name"], what))
        if rejected >= 5:
            rejected += len(todo)
            break
    return rejected


def max_chain(items):
    best = 0
    starts = {it["next"] for it in items}
    for i, it in enumerate(items, 1):
        if i in starts:
            continue
        n, j = 1, it["next"]
        while j and n <= len(items):
            n += 1
            j = items[j - 1]["next"]
        best = max(best, n)
    return best


# ================================================================================================ entry points
def run(ck):
    dev = active("nav")
    ck.extra["deviations_modelled_as_coded"] = dev
    ck.rule = ("A: every terminal state of NumTree.tla (tree shape x key set), Labels.tla (ranges x styles x St x prefix), "
               "NameTree.tla (tree shape x /Dests dictionary x query; one document per tree, all its queries), Outline.tla "
               "(forest x targets) and TextString.tla (byte string), each realised in one of three physical variants (the third writes a changing subset of the single entries as indirect references); "
               "non-trivial = a tree with Kids, a styled or prefixed range, more than one outline item, a claimed string longer "
               "than its byte order mark. B: one trace per recorded document that has labels, outlines or destinations "
               "(samples + large generated documents); non-trivial = more than 3 recorded results.")
    ck.assumptions = ["a value in a number / name tree is represented by its key (valid trees hold one value per key)",
                      "name trees are valid (keys ascending, exact /Limits on all nodes but the root): 7.9.6",
                      "roman labels are claimed inside the formatter's asserted domain 1..3999",
                      "text strings: claimed for well-formed UTF-16BE and for bytes PDFDocEncoding defines; contents of the "
                      "PDFDocEncoding table are data (cross-checked separately against the harness's Annex D.2 transcription)",
                      "pages before the first label range (a tree that does not begin at 0) are unconstrained"]
    direction_a(ck, dev)
    direction_b(ck, dev)
    ck.exhaustive = True


def replay(path):
    doc = json.load(open(path))
    case = unjson(doc["case"])
    kind = case.get("kind")
    if kind in ("numtree", "labels", "outline", "text"):
        findings = _EVAL[kind](case["rec"], case["i"])[0]
    elif kind == "dests":
        findings = eval_dests(case["group"], case["i"])[0]
    elif kind == "trace" and case.get("doc"):
        from ..core import Check
        ck = Check("C17", "quick", 0)
        before = len(ck.violations)
        validate(ck, [case["doc"]], active("nav"))
        findings = [(k, w) for k, w, _ in ck.violations[before:]]
        import shutil
        shutil.rmtree(ck.tmp, ignore_errors=True)
    else:
        print("nothing to re-run for this replay file:")
        print(str(case)[:3000])
        return 1
    for key, what in findings:
        print("  key=%s  %s" % (key, what))
    known = known_keys("C17")
    same = [f for f in findings if f[0] == doc["key"] or f[0] not in known]
    if same:
        print("VIOLATION property=C17 replay=%s" % path)
    return 1 if same else 0
