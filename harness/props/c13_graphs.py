def run_accessors(ck):
    pass


def run_refgraph(ck):
    pass
