"""C13, parts 2 and 3: specs/robust/RefGraph.tla and specs/robust/Accessors.tla bound to the code.

RefGraph: TLC enumerates every canonical reference graph x traversal, deciding for the as-coded machine (cycle guards the
code has today = all guards minus the Dev switches carried by known findings) whether the traversal ends within the
bound, and checking the Bound invariant on the intended machine (all guards) for every graph.  Every emitted (graph,
traversal) pair of the small spaces, and a seeded sample (diverging and ending pairs in equal parts) of the larger ones, is
realised as a PDF document and driven through the extraction entry points (direct API for the traversals no entry point
reaches: outlines and name trees, reported as notes only) under the work meter.

Accessors: TLC enumerates accessor x value kind x STRICT; every cell is replayed on the real function.
"""
import io
import json
import logging
import os
import random

from ..deviations import active, tla_set
from ..observe import faultrun, workmeter
from ..realise.pdfwriter import Name, Ref, Stream, ser
from ..tlc import MachineryError, SPECS, require_coverage, run_tlc, write_cfg

logging.disable(logging.CRITICAL)
ROBUST = os.path.join(SPECS, "robust")
ALL_TRAVS = ["resolve1", "accessor", "resolve_all", "getobj", "xrefchain", "pagetree", "numtree", "nametree", "outline",
             "form"]
ENTRY_TRAVS = ["resolve1", "accessor", "resolve_all", "getobj", "xrefchain", "pagetree", "numtree", "form"]   # reachable from the entry points
DIAMOND_TRAVS = ["pagetree", "resolve_all", "numtree", "nametree", "outline"]     # "form": painting twice is intended
DIAMOND_N = 8                 # depth TLC explores
DIAMOND_ENDS = (10, 13, 16)   # depths replayed when the model says the traversal is linear
DIAMOND_DIVERGES = 18         # depth replayed when the model says it is exponential (2**18 paths)
# the Dev switch (carried by a known finding) that says "this traversal has no cycle guard in the code"
GUARD_DEVS = {"resolve1": "Resolve1NoCycleGuard", "accessor": "Resolve1NoCycleGuard", "resolve_all": "ResolveAllNoGuard",
              "getobj": "GetobjNoReentryGuard", "xrefchain": "XRefChainNoGuard", "numtree": "NumTreeNoGuard",
              "nametree": "NameTreeNoGuard", "outline": "OutlineNoGuard"}
N = Name
CONTENT = b"BT /F1 12 Tf 72 700 Td (graph) Tj ET\n"


# ================================================================================================ Accessors
def _accessor_doc():
    objs = {11: None, 12: True, 13: 7, 14: 1.5, 15: N("Xq"), 16: b"xy", 17: [1, 2, 3, 4], 18: {"K": 7},
            19: Stream({}, b"q Q"), 20: Ref(20)}
    data = _plain_doc(objs)
    from pdfminer.pdfdocument import PDFDocument
    from pdfminer.pdfparser import PDFParser
    return PDFDocument(PDFParser(io.BytesIO(data)))


KIND_OBJ = {"null": 11, "bool": 12, "int": 13, "real": 14, "name": 15, "string": 16, "array": 17, "dict": 18, "stream": 19}


def _plain_doc(extra, catalog_extra=None, page_extra=None, font_extra=None, contents=CONTENT):
    """a one-page classic document plus the given objects (numbers >= 10)"""
    objs = {1: dict({"Type": N("Catalog"), "Pages": Ref(2)}, **(catalog_extra or {})),
            2: {"Type": N("Pages"), "Kids": [Ref(3)], "Count": 1},
            3: dict({"Type": N("Page"), "Parent": Ref(2), "MediaBox": [0, 0, 612, 792],
                     "Resources": {"Font": {"F1": Ref(4)}}, "Contents": Ref(5)}, **(page_extra or {})),
            4: dict({"Type": N("Font"), "Subtype": N("Type1"), "BaseFont": N("Helvetica")}, **(font_extra or {})),
            5: Stream({}, contents)}
    objs.update(extra)
    out = bytearray(b"%PDF-1.4\n")
    offs = {}
    for n in sorted(objs):
        offs[n] = len(out)
        v = objs[n]
        if isinstance(v, Stream):
            attrs = dict(v.attrs)
            attrs.setdefault("Length", len(v.data))
            body = ser(attrs) + b"\nstream\n" + v.data + b"\nendstream"
        else:
            body = ser(v)
        out += b"%d 0 obj\n" % n + body + b"\nendobj\n"
    xpos = len(out)
    top = max(objs)
    out += b"xref\n0 %d\n" % (top + 1)
    for n in range(top + 1):
        if n in offs:
            out += b"%010d 00000 n \n" % offs[n]
        else:
            out += b"0000000000 65535 f \n"
    out += b"trailer\n" + ser({"Size": top + 1, "Root": Ref(1)}) + b"\nstartxref\n%d\n%%%%EOF\n" % xpos
    return bytes(out)


def _real_accessor(doc, acc, kind, strict, meter):
    from pdfminer import casting, pdftypes, settings
    from pdfminer.pdfexceptions import PDFTypeError
    from pdfminer.pdftypes import PDFObjRef, PDFStream
    from pdfminer.psparser import LIT
    direct = {"null": None, "bool": True, "int": 7, "real": 1.5, "name": LIT("Xq"), "string": b"xy",
              "array": [1, 2, 3, 4], "dict": {"K": 7}, "stream": PDFStream({}, b"q Q")}
    if kind in direct:
        x = direct[kind]
    elif kind == "ref_missing":
        x = PDFObjRef(doc, 99)
    elif kind == "ref_self":
        x = PDFObjRef(doc, 20)
    else:
        x = PDFObjRef(doc, KIND_OBJ[kind[4:]])
    if acc in ("safe_int", "safe_float", "safe_rect_list"):
        fn = lambda: getattr(casting, acc)(x)                       # noqa: E731
    elif acc == "safe_rgb":
        fn = lambda: casting.safe_rgb(x, 0, 0)                      # noqa: E731
    elif acc in ("safe_cmyk", "safe_rect"):
        fn = lambda: getattr(casting, acc)(x, 0, 0, 0)              # noqa: E731
    elif acc == "safe_matrix":
        fn = lambda: casting.safe_matrix(x, 0, 0, 1, 0, 0)          # noqa: E731
    elif acc == "uint_value":
        fn = lambda: pdftypes.uint_value(x, 8)                      # noqa: E731
    else:
        fn = lambda: getattr(pdftypes, acc)(x)                      # noqa: E731
    old = settings.STRICT
    settings.STRICT = strict
    try:
        res, exc = meter.run(fn, 100_000, cpu=20)
    finally:
        settings.STRICT = old
    oc = workmeter.classify(meter, exc)
    if isinstance(exc, PDFTypeError):
        return "PDFTypeError", oc
    if oc.startswith("hang"):
        return "diverge", oc
    if oc != "ok":
        return oc.split("@")[0], oc
    if acc.startswith("safe_"):
        return ("none" if res is None else "value"), oc
    defaults = {"int_value": 0, "float_value": 0.0, "num_value": 0, "uint_value": 256, "str_value": b"",
                "list_value": [], "dict_value": {}}
    if acc == "stream_value":
        return ("default" if (isinstance(res, PDFStream) and res.attrs == {} and res.rawdata == b"") else "value"), oc
    if acc == "resolve1":
        return "value", oc
    if acc == "uint_value":
        # the default is derived from int_value's 0: 2**n_bits before a61ed62 (which keeps 0 as 0), 0 after it
        return ("default" if (res in (0, 256) and type(res) is int) else "value"), oc
    same = res == defaults[acc] and type(res) is type(defaults[acc])
    return ("default" if same else "value"), oc


def accessor_cfg(ck, dev, name):
    return write_cfg(os.path.join(ck.tmp, name), constants={"Dev": tla_set(dev), "MaxSteps": 6},
                     invariants=["Total", "Bounded", "AgreesWithReference"], constraints=["Emit"])


def run_accessors(ck):
    spec = os.path.join(ROBUST, "Accessors.tla")
    dev = [d for d in active("robust") if d in ("Resolve1NoCycleGuard", "RectListStreamKeyError")]
    # (a) the intended design is total
    res = run_tlc(spec, accessor_cfg(ck, [], "acc_intended.cfg"), coverage=True, timeout=600, workers=2)
    ck.add_tlc(res, "Accessors.tla intended (Dev = {})")
    if not res.ok:
        raise MachineryError("Accessors.tla: the intended accessors violate %s:\n%s" % (res.violated, res.error_text[:2000]))
    require_coverage(res, ["AResolveStep", "ACheck", "ACast"])
    # (b) the accessors as coded: TLC finds the cells that are not total; every cell is replayed
    emit = os.path.join(ck.tmp, "acc.ndjson")
    cfg = write_cfg(os.path.join(ck.tmp, "acc_coded.cfg"), constants={"Dev": tla_set(dev), "MaxSteps": 6},
                    constraints=["Emit"])
    res = run_tlc(spec, cfg, emit=emit, timeout=600, workers=2)
    ck.add_tlc(res, "Accessors.tla as coded (Dev = %s)" % tla_set(dev))
    if dev:
        chk = run_tlc(spec, accessor_cfg(ck, dev, "acc_coded_inv.cfg"), timeout=600, workers=2)
        ck.add_tlc(chk, "Accessors.tla as coded, Total checked")
        if chk.ok:
            raise MachineryError("Accessors.tla: deviations %s are switched on but Total still holds" % dev)
        ck.extra["accessors_tlc_counterexample"] = {"violated": chk.violated,
                                                     "state": (chk.error_trace[-1][1] if chk.error_trace else {})}
    doc = _accessor_doc()
    meter = workmeter.Meter()
    cells = [json.loads(line) for line in open(emit)]
    if len(cells) != 16 * 20 * 2:
        raise MachineryError("Accessors.tla emitted %d cells, expected %d" % (len(cells), 16 * 20 * 2))
    drift = 0
    for c in cells:
        got, oc = _real_accessor(doc, c["acc"], c["arg"], c["strict"], meter)
        total = got in ("value", "default", "PDFTypeError", "none")
        ck.case(1, ("acc", c["acc"], c["arg"], c["strict"]) if c["arg"] not in ("int", "real") else None)
        if not total:
            ck.violation(oc, "%s(%s) with STRICT=%s: %s - not a value, a default, PDFTypeError or None"
                         % (c["acc"], c["arg"], c["strict"], oc),
                         {"kind": "accessor", "acc": c["acc"], "arg": c["arg"], "strict": c["strict"], "observed": oc})
        if got != c["result"]:
            drift += 1
            if total:
                ck.note("Accessors.tla/code drift: %s(%s) STRICT=%s: model %s, code %s"
                        % (c["acc"], c["arg"], c["strict"], c["result"], got))
    ck.replayed += len(cells)
    ck.extra["accessor_cells"] = len(cells)
    ck.extra["accessor_model_code_drift"] = drift
    ck.sample({"accessor_cell": cells[7], "real": _real_accessor(doc, cells[7]["acc"], cells[7]["arg"], cells[7]["strict"], meter)[0]})


# ================================================================================================ RefGraph
def obj_of(t):
    return 10 + t if t else 99


def realise_graph(g, trav):
    """-> (bytes, how) ; how = 'entry' (run the three entry points) or the name of the direct API"""
    nodes = {i + 1: v for i, v in enumerate(g)}
    extra = {}

    def refs(v, fan=None):
        out = v["out"] if fan is None else v["out"][:fan]
        return [Ref(obj_of(t)) for t in out]

    if trav == "xrefchain":
        return _xref_chain_doc(nodes), "entry"
    for i, v in nodes.items():
        n = obj_of(i)
        if v["k"] == "ref":
            extra[n] = Ref(obj_of(v["out"][0]))
            continue
        leaf = v["k"] == "leaf"
        if trav == "resolve1":
            extra[n] = Stream({}, CONTENT) if leaf else {"K": refs(v)}
        elif trav == "accessor":
            extra[n] = 90 if leaf else refs(v)
        elif trav == "resolve_all":
            extra[n] = 0 if leaf else refs(v)
        elif trav == "getobj":
            if leaf:
                extra[n] = len(CONTENT)
            else:
                r = refs(v, 1)
                extra[n] = Stream({"Length": r[0]} if r else {}, CONTENT)
        elif trav == "pagetree":
            extra[n] = ({"Type": N("Page"), "MediaBox": [0, 0, 612, 792], "Resources": {"Font": {"F1": Ref(4)}},
                         "Contents": Ref(5)} if leaf else {"Type": N("Pages"), "Kids": refs(v), "Count": len(v["out"])})
        elif trav == "numtree":
            extra[n] = {"Nums": [0, {"S": N("D")}]} if leaf else {"Kids": refs(v)}
        elif trav == "nametree":
            extra[n] = {"Limits": [b"a", b"b"], "Names": [b"aa", 1]} if leaf else {"Kids": refs(v)}
        elif trav == "form":
            fd = {"Type": N("XObject"), "Subtype": N("Form"), "BBox": [0, 0, 100, 100]}
            if leaf:
                extra[n] = Stream(fd, b"BT /F1 8 Tf 1 1 Td (f) Tj ET\n")
            else:
                r = refs(v)
                fd["Resources"] = {"XObject": {"X%d" % j: x for j, x in enumerate(r)}}
                extra[n] = Stream(fd, b"".join(b"/X%d Do\n" % j for j in range(len(r))))
        elif trav == "outline":
            d = {"Title": b"t%d" % i, "Dest": [Ref(3), N("Fit")]}
            if not leaf:
                r = refs(v, 2)
                if len(r) >= 1:
                    d["First"] = r[0]
                    d["Last"] = r[0]
                if len(r) >= 2:
                    d["Next"] = r[1]
            extra[n] = d
        else:
            raise MachineryError("unknown traversal %r" % trav)
    start = Ref(obj_of(1))
    if trav == "resolve1":
        return _plain_doc(extra, page_extra={"Contents": start}), "entry"
    if trav == "accessor":
        return _plain_doc(extra, page_extra={"Rotate": start}), "entry"
    if trav == "resolve_all":
        # (not one of the standard 14 fonts: their built-in metrics would be used instead of the descriptor)
        fd = {"Type": N("FontDescriptor"), "FontName": N("VerifFont"), "Flags": 32, "FontBBox": start}
        return _plain_doc(extra, font_extra={"BaseFont": N("VerifFont"), "FontDescriptor": fd, "FirstChar": 32,
                                             "LastChar": 32, "Widths": [500]}), "entry"
    if trav == "getobj":
        return _plain_doc(extra, page_extra={"Contents": start}), "entry"
    if trav == "pagetree":
        return _plain_doc(extra, catalog_extra={"Pages": start}), "entry"
    if trav == "numtree":
        return _plain_doc(extra, catalog_extra={"PageLabels": start}), "entry"
    if trav == "form":
        return _plain_doc(extra, page_extra={"Resources": {"Font": {"F1": Ref(4)}, "XObject": {"X": start}}},
                          contents=CONTENT + b"/X Do\n"), "entry"
    if trav == "nametree":
        return _plain_doc(extra, catalog_extra={"Names": {"Dests": start}}), "lookup_name"
    if trav == "outline":
        return _plain_doc(extra, catalog_extra={"Outlines": start}), "get_outlines"
    raise MachineryError("unknown traversal %r" % trav)


def _xref_chain_doc(nodes):
    """each container node is a classic cross-reference section whose trailer carries /XRefStm -> out[1] and
    /Prev -> out[2]; ref / leaf nodes are places that hold no section; startxref points at node 1"""
    body = {1: {"Type": N("Catalog"), "Pages": Ref(2)}, 2: {"Type": N("Pages"), "Kids": [Ref(3)], "Count": 1},
            3: {"Type": N("Page"), "Parent": Ref(2), "MediaBox": [0, 0, 612, 792], "Resources": {"Font": {"F1": Ref(4)}},
                "Contents": Ref(5)},
            4: {"Type": N("Font"), "Subtype": N("Type1"), "BaseFont": N("Helvetica")}}
    # offset style: exact (first byte of `xref`), or - for every other graph - the end-of-line just before it, which
    # readers tolerate; a cycle guard must not depend on the style
    loose = sum(sum(v["out"]) + len(v["out"]) for v in nodes.values()) % 2
    for rnd in range(2):          # two passes: offsets of later sections are needed by earlier ones (fixed-width numbers)
        out = bytearray(b"%PDF-1.4\n")
        offs = {}
        for n in sorted(body):
            offs[n] = len(out)
            out += b"%d 0 obj\n" % n + ser(body[n]) + b"\nendobj\n"
        offs[5] = len(out)
        out += b"5 0 obj\n" + ser({"Length": len(CONTENT)}) + b"\nstream\n" + CONTENT + b"\nendstream\nendobj\n"
        pos = {}
        for i, v in sorted(nodes.items()):
            pos[i] = len(out)
            if v["k"] != "node":
                out += b"%d 0 obj\n(no section here)\nendobj\n" % (20 + i)
                continue
            out += b"xref\n0 6\n0000000000 65535 f \n"
            for n in range(1, 6):
                out += b"%010d 00000 n \n" % offs[n]
            tr = [b"/Size 6 /Root 1 0 R"]
            keys = [b"XRefStm", b"Prev"]
            for j, t in enumerate(v["out"][:2]):
                where = ((prev_pos.get(t, 0) - loose) if t else prev_size + 1000) if rnd else 0
                tr.append(b"/%s %010d" % (keys[j], where))
            # (every section ends like a revision does: the trailer dictionary is only complete for the parser when
            # the startxref keyword follows it)
            out += b"trailer\n<<" + b" ".join(tr) + b">>\nstartxref\n%d\n%%%%EOF\n" % pos[i]
        out += b"startxref\n%d\n%%%%EOF\n" % pos[1]
        prev_pos, prev_size = pos, len(out)
    return bytes(out)


def _direct_api(data, how, meter, caching=True):
    from pdfminer.pdfdocument import PDFDocument
    from pdfminer.pdfparser import PDFParser

    def go():
        doc = PDFDocument(PDFParser(io.BytesIO(data)), caching=caching)
        if how == "lookup_name":
            try:
                return doc.lookup_name("Dests", b"zz")
            except KeyError:
                return None
        return list(doc.get_outlines())
    res, exc = meter.run(go, faultrun.budget_for(data), cpu=faultrun.CPU_LIMIT)
    return workmeter.classify(meter, exc)


def run_graph_case(g, trav, meter, caching=True):
    """-> (class: ends | diverges, outcome keys seen, bytes)"""
    data, how = realise_graph(g, trav)
    if how == "entry":
        ocs = [oc for (_, oc, _, _) in faultrun.run_all(data, caching=caching)]
    else:
        ocs = [_direct_api(data, how, meter, caching)]
    cls = "ends"
    for oc in ocs:
        c = oc.split(":")[0]
        if c in ("hang", "recursion"):
            cls = "diverges"       # which of the two limits is met first depends on the size of the document
    return cls, ocs, data


_METER = None


def _graph_work(chunk):
    global _METER
    if _METER is None:
        _METER = workmeter.Meter()
        logging.disable(logging.CRITICAL)
    out = []
    for r in chunk:
        cls, ocs, data = run_graph_case(r["g"], r["trav"], _METER, r.get("caching", True))
        out.append((r, cls, ocs, len(data)))
    return out


def refgraph_cfg(ck, name, n, maxout, travs, guards, invariants=(), emit=True, path_guards=("form",), family="all"):
    return write_cfg(os.path.join(ck.tmp, name),
                     constants={"N": n, "MaxOut": maxout, "Travs": tla_set(travs), "Guards": tla_set(guards),
                                "PathGuards": tla_set([p for p in path_guards if p in guards]), "Family": '"%s"' % family,
                                "C": 6},
                     invariants=list(invariants), constraints=["Emit"] if emit else [])


def diamond(d):
    return [{"k": "node", "out": [i + 2, i + 2]} for i in range(d - 1)] + [{"k": "leaf", "out": []}]


def run_refgraph(ck):
    import multiprocessing as mp
    spec = os.path.join(ROBUST, "RefGraph.tla")
    thorough = ck.tier == "thorough"
    devs = active("robust")
    dev = [d for d in devs if d in GUARD_DEVS.values()]
    coded_guards = ["pagetree", "form"] + [t for t, d in GUARD_DEVS.items() if d not in dev]
    # guards that remember the enclosing objects only: do_Do's set of forms in progress (intended), and resolve_all
    # as long as the ResolveAllPathGuardOnly finding is open
    coded_path = ["form"] + (["resolve_all"] if "ResolveAllPathGuardOnly" in devs else [])
    if "ResolveAllPathGuardOnly" in devs:
        dev = dev + ["ResolveAllPathGuardOnly"]
    ck.extra["refgraph_path_guards_as_coded"] = coded_path
    ck.extra["refgraph_deviations_modelled_as_coded"] = dev
    ck.extra["refgraph_guards_as_coded"] = coded_guards
    spaces = [(3, 2, ALL_TRAVS), (4, 1, ALL_TRAVS)] if thorough else [(2, 2, ALL_TRAVS), (3, 1, ALL_TRAVS)]
    if thorough:
        spaces.append((4, 2, ["numtree", "pagetree"]))
    rng = random.Random(ck.seed)
    todo = []
    tlc_verdicts = {}
    for (n, maxout, travs) in spaces:
        tag = "N=%d MaxOut=%d" % (n, maxout)
        # (a) intended machine: every traversal guarded - Bound holds on every graph
        res = run_tlc(spec, refgraph_cfg(ck, "rg_int_%d_%d.cfg" % (n, maxout), n, maxout, travs, ALL_TRAVS,
                                         ["BoundOK", "EnterOnce"], emit=False),
                      coverage=(n * maxout <= 4), timeout=3000)
        ck.add_tlc(res, "RefGraph.tla intended (all guards) %s" % tag)
        if not res.ok:
            raise MachineryError("RefGraph.tla: the guarded traversals violate %s (%s):\n%s"
                                 % (res.violated, tag, res.error_text[:3000]))
        if res.actions:
            require_coverage(res, ["ABuild", "AStart", "AResolveStep", "AFinishLoop", "AEnter", "AChild", "AReturn", "AFinish"])
        # (b) as coded: TLC decides termination per (graph, traversal); emitted for replay
        emit = os.path.join(ck.tmp, "rg_%d_%d.ndjson" % (n, maxout))
        res = run_tlc(spec, refgraph_cfg(ck, "rg_cod_%d_%d.cfg" % (n, maxout), n, maxout, travs, coded_guards,
                                         path_guards=coded_path),
                      emit=emit, timeout=3000)
        ck.add_tlc(res, "RefGraph.tla as coded (guards %s) %s" % (",".join(coded_guards), tag))
        rows = sorted((json.loads(line) for line in open(emit)), key=lambda r: json.dumps(r, sort_keys=True))
        os.remove(emit)       # (sorted: TLC's workers print in no particular order, the seeded sample must not depend on it)
        if not rows:
            raise MachineryError("RefGraph.tla emitted nothing for %s" % tag)
        for r in rows:
            tlc_verdicts[(tag, r["trav"], r["status"])] = tlc_verdicts.get((tag, r["trav"], r["status"]), 0) + 1
        diverging = [r for r in rows if r["status"] in ("hang", "recursion")]
        ending = [r for r in rows if r["status"] not in ("hang", "recursion")]
        k = (4000 if (n, maxout) == (3, 2) else 900) if thorough else 260
        pick = rng.sample(diverging, min(len(diverging), k)) + rng.sample(ending, min(len(ending), k))
        ck.extra.setdefault("refgraph_spaces", {})[tag] = {"pairs": len(rows), "diverging_as_coded": len(diverging),
                                                           "replayed": len(pick)}
        # the caching option of the entry points: form graphs with the caches on and off, the others alternately
        for j, r in enumerate(pick):
            if r["trav"] == "form":
                todo.append(dict(r, caching=True))
                todo.append(dict(r, caching=False))
            else:
                todo.append(dict(r, caching=(j % 2 == 0)))
    # (b') the diamond family: a chain of containers whose two references both lead to the next one has 2**depth
    # paths; a traversal must visit each object once, not once per path (work bounded by C * |graph|)
    res = run_tlc(spec, refgraph_cfg(ck, "rg_dia_int.cfg", DIAMOND_N, 2, DIAMOND_TRAVS, ALL_TRAVS, ["BoundOK"], emit=False,
                                     family="diamond"), timeout=600, workers=2)
    ck.add_tlc(res, "RefGraph.tla intended, diamond chain of depth %d" % DIAMOND_N)
    if not res.ok:
        raise MachineryError("RefGraph.tla: the guarded traversals violate %s on the diamond chain:\n%s"
                             % (res.violated, res.error_text[:3000]))
    emit = os.path.join(ck.tmp, "rg_dia.ndjson")
    res = run_tlc(spec, refgraph_cfg(ck, "rg_dia_cod.cfg", DIAMOND_N, 2, DIAMOND_TRAVS, coded_guards, path_guards=coded_path,
                                     family="diamond"), emit=emit, timeout=600, workers=2)
    ck.add_tlc(res, "RefGraph.tla as coded, diamond chain of depth %d" % DIAMOND_N)
    rows = sorted((json.loads(line) for line in open(emit)), key=lambda r: r["trav"])
    os.remove(emit)
    if sorted(r["trav"] for r in rows) != sorted(DIAMOND_TRAVS):
        raise MachineryError("RefGraph.tla: diamond family emitted %r" % [r["trav"] for r in rows])
    dia = {}
    for r in rows:
        dia[r["trav"]] = r["status"]
        tlc_verdicts[("diamond N=%d" % DIAMOND_N, r["trav"], r["status"])] = 1
        depths = (DIAMOND_DIVERGES,) if r["status"] in ("hang", "recursion") else DIAMOND_ENDS
        for d in depths:
            for caching in (True, False):
                todo.append({"g": diamond(d), "trav": r["trav"], "status": r["status"], "caching": caching,
                             "family": "diamond", "depth": d})
    ck.extra["refgraph_diamond_as_coded"] = dia
    # (c) TLC finds the non-terminating ones as violated Bound invariants of the as-coded machine
    if len(coded_guards) < len(ALL_TRAVS):
        chk = run_tlc(spec, refgraph_cfg(ck, "rg_cod_inv.cfg", 2, 2, ALL_TRAVS, coded_guards, ["BoundOK"], emit=False,
                                         path_guards=coded_path),
                      timeout=600)
        ck.add_tlc(chk, "RefGraph.tla as coded, BoundOK checked (N=2)")
        if chk.ok:
            raise MachineryError("RefGraph.tla: guards %s are missing but BoundOK holds" % dev)
        last = chk.error_trace[-1][1] if chk.error_trace else {}
        ck.extra["refgraph_tlc_counterexample"] = {"violated": chk.violated, "graph": last.get("g"), "trav": last.get("trav"),
                                                   "status": last.get("status"), "trace_len": len(chk.error_trace)}
    ck.extra["refgraph_tlc_verdicts"] = {"%s %s %s" % k: v for k, v in sorted(tlc_verdicts.items())}
    # replay
    chunks = [todo[i:i + 20] for i in range(0, len(todo), 20)]
    drift = 0
    supp = {}
    agree = 0
    ctx = mp.get_context("fork")
    with ctx.Pool(min(16, os.cpu_count() or 4)) as pool:
        for res in pool.imap_unordered(_graph_work, chunks):
            for (r, cls, ocs, dlen) in res:
                model = "diverges" if r["status"] in ("hang", "recursion") else "ends"
                entry = r["trav"] in ENTRY_TRAVS
                cyc = model != "ends" or cls != "ends"
                ck.case(len(ocs), ("graph", r["trav"], json.dumps(r["g"])) if cyc or any(v["k"] != "leaf" for v in r["g"]) else None)
                case = {"kind": "refgraph", "g": r["g"], "trav": r["trav"], "model": r["status"], "observed": ocs,
                        "caching": r.get("caching", True)}
                gtxt = ("diamond chain of depth %d" % r["depth"]) if r.get("family") == "diamond" else json.dumps(r["g"])
                for oc in sorted(set(ocs)):
                    c = oc.split(":")[0]
                    if c in ("ok", "family"):
                        continue
                    if entry:
                        ck.violation(oc, "traversal %s over graph %s%s: %s (model as coded: %s)"
                                     % (r["trav"], gtxt, "" if r.get("caching", True) else " with caching off", oc,
                                        r["status"]), case)
                    else:
                        # get_outlines / lookup_name are not reached by the extraction entry points: outside the
                        # property as stated.  Listed (optional) findings are counted, anything else is a note.
                        supp[oc] = supp.get(oc, 0) + 1
                        if ck.is_known("supplementary:" + oc):
                            ck.violation("supplementary:" + oc, "", case)
                if cls == model:
                    agree += 1
                else:
                    drift += 1
                    if drift <= 5:
                        ck.note("RefGraph.tla/code drift: %s over %s: model %s, code %s %s"
                                % (r["trav"], gtxt, r["status"], cls, ocs))
                if agree % 700 == 1 and cyc:
                    ck.sample(dict(case, input_bytes=dlen))
    ck.replayed += len(todo)
    ck.extra["refgraph_replayed"] = len(todo)
    ck.extra["refgraph_model_code_agree"] = agree
    ck.extra["refgraph_model_code_drift"] = drift
    if supp:
        ck.extra["supplementary_direct_api_findings"] = supp
        ck.note("traversals no extraction entry point reaches (get_outlines, lookup_name) diverge on cyclic graphs: %s "
                "- outside the property as stated, reported as a note" % json.dumps(supp, sort_keys=True))


def replay_case(case, path):
    meter = workmeter.Meter()
    logging.disable(logging.CRITICAL)
    if case["kind"] == "accessor":
        got, oc = _real_accessor(_accessor_doc(), case["acc"], case["arg"], case["strict"], meter)
        print("%s(%s) STRICT=%s -> %s (%s)" % (case["acc"], case["arg"], case["strict"], got, oc))
        bad = got not in ("value", "default", "PDFTypeError", "none")
    else:
        cls, ocs, data = run_graph_case(case["g"], case["trav"], meter, case.get("caching", True))
        print("traversal %s over %s: %s %s (model: %s)" % (case["trav"], json.dumps(case["g"]), cls, ocs, case.get("model")))
        bad = any(oc.split(":")[0] not in ("ok", "family") for oc in ocs)
    if bad:
        print("VIOLATION property=C13 replay=%s" % path)
    return 1 if bad else 0
