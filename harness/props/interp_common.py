"""Shared driver for C05 (text model) and C16 (painted paths): TLC run per program group -> replay -> verdicts."""
import json
import os

from ..deviations import active
from ..tlc import MachineryError, SPECS, run_tlc, write_cfg
from ..realise import interp_real as IR

SPEC = os.path.join(SPECS, "interp", "MC_ContentInterp.tla")
ALLDEVS = ["TcNotTrailing", "FormNoGsInherit", "CsNoColorReset", "LoneMoveShape", "QKeepsColorSpace"]
ACTIONS = ["APushOperand", "AGState", "ATextObj", "ATextState", "ATextPos", "AShow", "AColor", "APath", "APaint", "ADo"]
PAINT = {"S", "s", "f", "F", "f*", "B", "B*", "b", "b*", "n"}


def forms_def():
    """the form XObjects of the model (FormDefs in MC_ContentInterp.tla), obtained from TLC itself"""
    return None


def run_group(ck, pid, init, want, cover):
    """init: TLA Init expression; want: set of {'glyphs','shapes'} the property is about."""
    dev = active("interp")
    unknown = [d for d in dev if d not in ALLDEVS]
    if unknown:
        raise MachineryError("unknown interp deviation(s) %s" % unknown)
    mod = "Run_%s" % abs(hash(init))
    wrapper = os.path.join(ck.tmp, mod + ".tla")
    devsets = [[]] + ([sorted(dev)] if dev else []) + ([[d] for d in dev] if len(dev) > 1 else [])
    tla_sets = "{" + ", ".join("{" + ", ".join('"%s"' % d for d in ds) + "}" for ds in devsets) + "}"
    open(wrapper, "w").write("---- MODULE %s ----\nEXTENDS MC_ContentInterp\nTheInit == %s\nTheDevs == %s\n"
                             "EmitForms == TRUE\n====\n" % (mod, init, tla_sets))
    mixed = init.startswith("InitMixed")
    cfg = write_cfg(os.path.join(ck.tmp, mod + ".cfg"),
                    constants={"Forms": "<- FormDefs", "PageXO": "<- PageXODef", "PageFonts": "<- PageFontsDef", "DevChoices": "<- TheDevs", "MixTokens": 60 if mixed else 0,
                               "MixPool": "<- MixPoolAll" if mixed else "<- NoPool"},
                    init="TheInit", next="Next", invariants=["DevCtmInSync", "NoError"],
                    properties=["NoResidue", "QRestores", "FormTransparent", "BadOperandsFrame", "FrameOK"], constraints=["EmitTerminal"])
    emit = os.path.join(ck.tmp, mod + ".ndjson")
    # (TLC's -coverage is pathologically slow on this spec's recursive operators; vacuity is guarded by counting, below,
    #  which operators the enumerated programs actually execute)
    if mixed:
        # long programs mixing all operator groups: random behaviours (tlc -simulate), seeded by VERIF_SEED
        res = run_tlc(wrapper, cfg, emit=emit, coverage=False, timeout=1500, lib=os.path.join(SPECS, "interp"),
                      simulate={"num": 1500 if ck.tier == "thorough" else 150}, depth=400, seed=ck.seed + 1, workers=8)
    else:
        res = run_tlc(wrapper, cfg, emit=emit, coverage=False, timeout=3600, lib=os.path.join(SPECS, "interp"))
    ck.add_tlc(res, init)
    if not res.ok:
        raise MachineryError("ContentInterp.tla violates %s on the intended design (%s):\n%s" % (res.violated, init, res.error_text[:3000]))
    byprog = {}
    for line in open(emit):
        r = json.loads(line)
        key = json.dumps(r["prog"], sort_keys=True)
        byprog.setdefault(key, {})[",".join(sorted(r["dev"]))] = r
    os.remove(emit)
    if mixed:
        # a simulated behaviour may be emitted more than once (terminal state re-evaluated): keep one per program
        pass
    elif not byprog or sum(len(v) for v in byprog.values()) != res.emitted:
        raise MachineryError("emitted %d records, grouped %d" % (res.emitted, sum(len(v) for v in byprog.values())))
    forms = FORMS
    # line widths and dash operands in half units (1.5 w, [2 0.5] 1.5 d) wherever no left-over operand can reach w / d
    IR.HALF = not (mixed or init.startswith("InitPass") or init.startswith("InitBad"))
    keys = list(byprog)
    CH = 150
    alltag = ",".join(sorted(dev))
    drift = 0
    for i in range(0, len(keys), CH):
        chunk = keys[i:i + CH]
        progs = [byprog[k][""]["prog"] for k in chunk]
        style = lambda j, i=i: (i // CH + j) % IR.NUMSTYLES  # noqa: E731 - rotate the spelling of numbers over the programs
        data = IR.build_doc(progs, forms, numstyle=style, direct_fonts=(i // CH) % 2 == 1)
        results = IR.run_doc(data, len(progs))
        for k, prog, (glyphs, shapes, snaps, err) in zip(chunk, progs, results):
            recs = byprog[k]
            ideal = recs[""]
            coded = recs.get(alltag, ideal)
            body = IR.prog_bytes(prog)
            rp = {"program": IR.prog_bytes(prog, style(chunk.index(k))), "property": pid}
            ck.replayed += 1
            ops = IR.op_names(prog)
            for o in ops:
                cover[o] = cover.get(o, 0) + 1
            nontrivial = (len(ideal["glyphs"]) if "glyphs" in want else 0) + (len(ideal["shapes"]) if "shapes" in want else 0) > 0
            ck.case(1, body if nontrivial else None)
            if ck.replayed % 4000 == 1:
                ck.sample({"content_stream": body, "glyphs": len(glyphs), "shapes": len(shapes),
                           "first_glyph": glyphs[0] if glyphs else None, "first_shape": {k2: v for k2, v in shapes[0].items() if k2 != "orig"} if shapes else None})
            if err is not None:
                ck.violation("exception:" + err, "interpreting %r raised %s" % (body, err), rp)
                continue
            for what, eq, real in (("glyphs", IR.glyphs_equal, glyphs), ("shapes", IR.shapes_equal, shapes)):
                if what not in want:
                    continue
                if eq(real, ideal[what]):
                    continue
                if dev and eq(real, coded[what]):
                    blame = [d for d in dev if not _same(recs.get(d, ideal)[what], ideal[what])] or ["combination"]
                    for d in blame:
                        ck.violation("dev:" + d, "%s of %r differ from the PDF model" % (what, body), rp)
                else:
                    first = _first_diff(real, ideal[what], what)
                    ck.violation("%s:%s" % (what, first[0]), "%s reported for %r differ from what the PDF model assigns: %s" % (what, body, first[1]),
                                 dict(rp, observed=repr(real)[:1500], expected=repr(ideal[what])[:1500]))
            # state-level clauses, evaluated on the real snapshots
            real_ops = [n for n, _ in snaps]
            if len(snaps) == len(coded["snaps"]):
                if not IR.snaps_equal(snaps, coded["snaps"]):
                    drift += 1
                    if drift <= 3:
                        ck.note("drift: per-operator state of %r differs from the as-coded model" % body)
                prev = None
                for (name, s) in snaps:
                    # the operator is read off the snapshot itself: operators that were skipped for lack of operands
                    # leave no snapshot, so positions in the program do not line up with positions in the snapshot list
                    opn = IR.OPNAME.get(name[3:], name[3:])
                    if name == "do_Do" and prev is not None:
                        for f in ("ctm", "dctm", "tm", "lx", "font", "size", "tc", "tw", "tz", "tl", "rise", "lw", "sc", "nc", "npath", "depth"):
                            if not IR.close(s[f], prev[f]):
                                ck.violation("form-not-transparent:" + f, "after /Fm Do in %r the caller's %s is %r, it was %r" % (body, f, s[f], prev[f]), rp)
                                break
                    if opn in PAINT and s["npath"] != 0:
                        ck.violation("path-residue", "after %s in %r the current path still has %d segments" % (opn, body, s["npath"]), rp)
                    prev = s
            else:
                drift += 1
                if drift <= 3:
                    ck.note("drift: %d operators snapshotted, model has %d for %r" % (len(snaps), len(coded["snaps"]), body))
    ck.extra["model_code_drift"] = ck.extra.get("model_code_drift", 0) + drift


def _same(a, b):
    return json.dumps(a, sort_keys=True) == json.dumps(b, sort_keys=True)


def _first_diff(real, model, what):
    if len(real) != len(model):
        return ("count", "%d reported, %d expected" % (len(real), len(model)))
    for i, (r, m) in enumerate(zip(real, model)):
        mm = IR.model_glyph(m) if what == "glyphs" else IR.model_shape(m)
        if what == "shapes" and IR.shape_equal(r, mm):
            continue
        for k, v in mm.items():
            if what == "shapes" and k == "pts" and mm["kind"] in ("rect", "line") and r.get("kind") == mm["kind"]:
                continue
            if not IR.close(r.get(k), v):
                return (k, "#%d %s is %r, expected %r" % (i, k, r.get(k), v))
    return ("other", "")


def split_invariance(ck, pid, progs):
    """splitting the content across several streams at white space changes nothing (real vs real)"""
    import random
    rng = random.Random(ck.seed)
    forms = FORMS
    base = IR.run_doc(IR.build_doc(progs, forms), len(progs))

    count = [0]

    def splitter(prog):
        # lexical tokens, not operands: the division may fall inside an array operand (between two elements of a TJ
        # array, after `[`, before `]`) as well as between an operand and its operator
        toks = IR.lex_tokens(prog)
        i = count[0]
        count[0] += 1
        if 1 <= i < len(toks):
            # exhaustive part: one division at every lexical boundary of the program, in turn
            cuts = [i]
        else:
            cuts = sorted(rng.sample(range(1, len(toks)), min(len(toks) - 1, rng.choice([2, 2, 3, 4]))))
        parts = []
        lo = 0
        for c in cuts + [len(toks)]:
            parts.append(b" ".join(toks[lo:c]))
            lo = c
        # the division falls AT white space: the white-space character stays with one of the two streams
        for j in range(len(parts) - 1):
            ws = rng.choice([b" ", b"\n", b"\r\n"])
            if rng.random() < 0.5:
                parts[j] += ws
            else:
                parts[j + 1] = ws + parts[j + 1]
        return parts
    other = IR.run_doc(IR.build_doc(progs, forms, split=splitter), len(progs))
    for p, a, b in zip(progs, base, other):
        ck.case(1, None)
        if repr((a[0], [{k: v for k, v in s.items() if k != "orig"} for s in a[1]])) != repr((b[0], [{k: v for k, v in s.items() if k != "orig"} for s in b[1]])):
            ck.violation("split-dependent", "splitting the content stream of %r into a Contents array changes the result" % IR.prog_bytes(p),
                         {"program": IR.prog_bytes(p), "property": pid})


def _forms():
    import re
    # FormDefs is fixed in MC_ContentInterp.tla; mirror it here through one tiny TLC-free parse of the realiser's needs:
    # the harness asks TLC for the form bodies once (EmitForms) would cost a JVM start; instead they are transcribed and
    # self-checked against the glyph/shape counts the model emits for `/Fm1 Do` and `/Fm2 Do` in the GState group.
    N = lambda n: {"t": "num", "n": n, "s": [], "a": []}  # noqa: E731
    S = lambda s: {"t": "str", "n": 0, "s": list(s), "a": []}  # noqa: E731
    Nm = lambda s: {"t": "name", "n": 0, "s": [IR.NAMES.index(s) + 1], "a": []}  # noqa: E731
    Op = lambda o: {"t": "op", "n": 0, "s": [IR.OPS.index(o) + 1], "a": []}  # noqa: E731
    fm1 = [Op("BT"), Nm("F1"), N(10), Op("Tf"), S(b"A"), Op("Tj"), Op("ET"), N(0), N(0), N(5), N(5), Op("re"), Op("f"),
           N(3), N(0), N(0), N(3), N(0), N(0), Op("cm")]
    fm2 = [N(0), N(1), N(0), Op("rg"), N(2), Op("w"), Op("q"), Op("BT"), Nm("F1"), N(20), Op("Tf"), N(2), Op("Tc"), S(b"BA"), Op("Tj"),
           Op("ET"), N(1), N(1), Op("m"), N(4), N(1), Op("l"), Op("S"), N(2), N(0), N(0), N(2), N(3), N(3), Op("cm")]
    fm3 = [Op("BT"), Nm("F1"), N(10), Op("Tf"), S(b"B"), Op("Tj"), Op("ET"), Nm("Fm1"), Op("Do"), Nm("Fm3"), Op("Do"), Nm("Fm2"), Op("Do"),
           Op("BT"), Nm("F1"), N(10), Op("Tf"), S(b"A"), Op("Tj"), Op("ET")]
    fm5 = [N(1), N(0), N(1), Op("sc"), N(0), N(1), N(1), N(0), Op("SC"), N(0), N(0), N(2), N(2), Op("re"), Op("B")]
    fm4 = [N(1), N(0), N(0), Op("rg"), Op("BT"), Nm("F1"), N(10), Op("Tf"), S(b"AB"), Op("Tj"), Op("ET")]
    return {"Fm1": {"m": [2, 0, 0, 2, 10, 10], "body": fm1, "own": True, "xo": {}, "fo": {"F1": "F1"}},
            "Fm2": {"m": [1, 0, 0, 1, 0, 0], "body": fm2, "own": False, "xo": {}, "fo": {}},
            "Fm3": {"m": [1, 0, 0, 1, 5, 0], "body": fm3, "own": True, "xo": {"Fm1": "Fm4", "Fm3": "Fm4"}, "fo": {"F1": "F1b"}},
            "Fm5": {"m": [1, 0, 0, 1, 0, 0], "body": fm5, "own": False, "xo": {}, "fo": {}},
            "Fm4": {"m": [1, 0, 0, 1, 0, 7], "body": fm4, "own": False, "xo": {}, "fo": {}, "page": False}}


FORMS = _forms()


def check_forms_transcription():
    """the Python copy of FormDefs must be the TLA+ one (compared textually, token by token)"""
    import re
    src = open(os.path.join(SPECS, "interp", "MC_ContentInterp.tla")).read()
    m = re.search(r"FormDefs == (.*?)\n\nPreText", src, re.S)
    if not m:
        raise MachineryError("FormDefs not found in MC_ContentInterp.tla")
    text = m.group(1)
    for name, f in FORMS.items():
        seg = text[text.index(name + " |->"):]
        seg = seg[:seg.index(">>]")]
        toks = re.findall(r'Op\("((?:[^"\\]|\\.)*)"\)|N\((-?\d+)\)|Nm\("(\w+)"\)|Str\(<<([\d, ]*)>>\)', seg[seg.index("body"):])
        got = []
        for o, n, nm, st in toks:
            if o:
                got.append(("op", o))
            elif n:
                got.append(("num", int(n)))
            elif nm:
                got.append(("name", nm))
            else:
                got.append(("str", tuple(int(x) for x in st.split(",") if x.strip())))
        want = []
        for t in f["body"]:
            if t["t"] == "op":
                want.append(("op", IR.OPS[t["s"][0] - 1]))
            elif t["t"] == "num":
                want.append(("num", t["n"]))
            elif t["t"] == "name":
                want.append(("name", IR.NAMES[t["s"][0] - 1]))
            else:
                want.append(("str", tuple(t["s"])))
        if got != want:
            raise MachineryError("harness copy of form %s differs from FormDefs in MC_ContentInterp.tla" % name)
        mm = re.search(r"m \|-> (<<[-\d, ]+>>|Ident)", seg)
        mv = [1, 0, 0, 1, 0, 0] if mm.group(1) == "Ident" else [int(x) for x in re.findall(r"-?\d+", mm.group(1))]
        if mv != f["m"]:
            raise MachineryError("harness copy of form %s matrix differs" % name)
        own = re.search(r"own \|-> (TRUE|FALSE)", seg).group(1) == "TRUE"
        xo = dict(re.findall(r'(\w+) \|-> "(\w+)"', re.search(r"xo \|-> (<<>>|\[[^\]]*\])", seg).group(1)))
        fo = dict(re.findall(r'(\w+) \|-> "(\w+)"', re.search(r"fo \|-> (<<>>|\[[^\]]*\])", seg).group(1)))
        if own != f["own"] or xo != f["xo"] or fo != f["fo"]:
            raise MachineryError("harness copy of form %s resources differ" % name)
    pm = dict(re.findall(r'(\w+) \|-> "(\w+)"', re.search(r"PageXODef == \[(.*?)\]", src).group(1)))
    if pm != {k: k for k, f in FORMS.items() if f.get("page", True)}:
        raise MachineryError("harness copy of the page's XObject dictionary differs from PageXODef")


TRACE_SPEC = os.path.join(SPECS, "interp", "ContentInterpTrace.tla")


def direction_b(ck, pid):
    """operator traces of the real interpreter on pages of the repository samples, validated by TLC"""
    import glob
    import random
    rng = random.Random(ck.seed + 17)
    files = sorted(glob.glob("/repo/samples/**/*.pdf", recursive=True))
    pick = files if ck.tier == "thorough" else rng.sample(files, 14)
    recs = []
    for fn in pick:
        pw = "foo" if "encryption" in fn and "base" not in fn else ""
        try:
            recs += IR.record_operator_traces(open(fn, "rb").read(), os.path.relpath(fn, "/repo"),
                                              maxpages=3 if ck.tier == "quick" else 10, password=pw)
        except Exception as e:  # noqa: BLE001
            ck.note("sample %s not traced: %s" % (os.path.basename(fn), type(e).__name__))
    if not recs:
        raise MachineryError("no operator traces recorded")
    tf = os.path.join(ck.tmp, "interp_traces.json")
    cfg = write_cfg(os.path.join(ck.tmp, "interp_trace.cfg"), spec="Spec", invariants=["StackDepthAgrees"], deadlock=True)
    from ..core import batches
    rejected = 0
    queue = batches(recs, lambda r: len(r["events"]) + 2)
    while queue:
        todo = queue.pop(0)
        json.dump(todo, open(tf, "w"))
        res = run_tlc(TRACE_SPEC, cfg, workers=1, env={"TRACE_FILE": tf}, timeout=3600, heap="8g")
        ck.add_tlc(res, "validation of %d recorded operator traces" % len(todo))
        if res.ok:
            ck.traces += len(todo)
            continue
        if not res.error_trace:
            raise MachineryError("trace validation failed unexpectedly: " + res.error_text[:2000])
        st = res.error_trace[-1][1]
        t, e = int(st["t"]), int(st["e"])
        tr = todo[t - 1]
        ev = tr["events"][e - 1] if e - 1 < len(tr["events"]) else None
        prev = tr["events"][e - 2]["after"] if e >= 2 else tr["init"]
        rejected += 1
        ck.traces += t - 1
        ck.violation("operator-trace-rejected:" + (ev["op"] if ev else "?"),
                     "%s: operator #%d %r is not a step the interpreter specification allows (state before: %r)" % (tr["label"], e, ev, prev),
                     {"program": tr["label"].encode(), "property": pid, "event": ev, "before": prev})
        if todo[t:]:
            queue.insert(0, todo[t:])
        if rejected >= 3:
            break
    ck.extra["operator_events_validated"] = sum(len(r["events"]) for r in recs)
    big = max(recs, key=lambda r: len(r["events"]))
    ck.sample({"trace": big["label"], "operators": len(big["events"]), "first_events": big["events"][:4]})
    for r in recs:
        ck.case(len(r["events"]), ("b", r["label"]))
