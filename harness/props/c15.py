"""C15 - filesystem confinement: documents cannot steer file access outside the allowed directories.

TLC decides ReadsConfined / WritesConfined / NeverOverwrite / DistinctNames on specs/fs/FsConfine.tla for every name
of up to MaxSeg segments (plain words, "..", ".", empty, NUL-containing, over-long; relative and absolute) at every
lookup site, once for the intended design (Dev = {}) and once as coded (Dev = deviations listed as known findings).

A. every terminal state of the as-coded run is realised: the name is spelled into a real PDF at the site (font
   /Encoding name, /CMapName of an /Encoding stream, usecmap operand, Registry-Ordering; XObject name for images),
   extract_text_to_fp runs in a subprocess under sys.addaudithook inside a scratch tree with decoy files, and the
   files opened / created / modified are compared with the model's prediction and with the property's predicates.
B. audit-event traces of full extraction with output_dir over repository samples are validated by TLC against
   specs/fs/FsTrace.tla.
"""
from __future__ import annotations

import base64
import glob
import json
import os
import random
import subprocess
import sys
import threading

from ..core import unjson
from ..deviations import active, tla_set
from ..tlc import MachineryError, SPECS, VERIF, require_coverage, run_tlc, write_cfg
from ..realise import fsdoc

SPEC = os.path.join(SPECS, "fs", "MC_FsConfine.tla")
TRACE_SPEC = os.path.join(SPECS, "fs", "FsTrace.tla")
INVARIANTS = ["ListsConfined", "ReadsConfined", "WritesConfined", "NeverOverwrite", "DistinctNames", "BlameSound", "LookupBounded"]
BOUNDS = {"quick": {"cmap": 3, "image": 2, "image_cases": "AllImageCases", "image_more": None, "image_deep": None, "image_ext": 1, "look": 2},
          "thorough": {"cmap": 4, "image": 2, "image_cases": "AllImageCases", "image_more": 3, "image_deep": 4, "image_ext": 2, "look": 3}}
BATCH = 16
EXT = ".bmp"
CODED_DEV = []


_reported = {}


def report(ck, key, what, case=None):
    """ck.violation with a cap on replay files per key (a broken tree yields thousands of identical reports)"""
    if not ck.is_known(key):
        _reported[key] = _reported.get(key, 0) + 1
        if _reported[key] > 40:
            ck.extra["violation_reports_suppressed"] = ck.extra.get("violation_reports_suppressed", 0) + 1
            return True
    return ck.violation(key, what, case)


# ---------------------------------------------------------------------------------------------- workers
def run_workers(ck, jobs, tag, nproc=None):
    """distribute jobs over audit-hook subprocesses -> {job id: result}, meta"""
    if not jobs:
        return {}, {}
    nproc = nproc or min(12, os.cpu_count() or 2, max(1, len(jobs) // 4))
    base = os.path.join(ck.tmp, "fs_%s" % tag)
    os.makedirs(base, exist_ok=True)
    chunks = [jobs[k::nproc] for k in range(nproc)]
    procs = []
    for k, ch in enumerate(chunks):
        for j in ch:
            j["root"] = os.path.join(base, "w%d" % k, "c%d" % j["id"])
            j["finalise"](j)
            del j["finalise"]
        jf, of = os.path.join(base, "jobs%d.json" % k), os.path.join(base, "out%d.json" % k)
        with open(jf, "w") as f:
            json.dump(ch, f)
        os.makedirs(os.path.join(base, "w%d" % k), exist_ok=True)
        p = subprocess.Popen([sys.executable, "-m", "harness.observe.fsaudit", jf, of], cwd=VERIF,
                             env=dict(os.environ, PDFMINER_VERIF="1"), stdout=subprocess.PIPE, stderr=subprocess.PIPE, text=True)
        procs.append((p, of, jf))
    out, meta = {}, {}
    for p, of, jf in procs:
        so, se = p.communicate(timeout=3600)
        if p.returncode != 0 or not os.path.exists(of):
            raise MachineryError("audit worker failed (exit %s): %s" % (p.returncode, se[-1500:]))
        d = json.load(open(of))
        meta = {"pdfminer": d["pdfminer"], "cmap_dir": d["cmap_dir"]}
        for r in d["results"]:
            out[r["id"]] = r
        os.remove(of)
        os.remove(jf)
    return out, meta


CODE_EXT = (".py", ".pyc", ".so", ".pth", ".pyi")


def region_of(path, root, inp, cmap_dir):
    """-> (region, relative path)  region: input | res | pkg | out | root (elsewhere in the scratch tree) | code | outside"""
    try:
        rp = os.path.realpath(path)
    except (ValueError, OSError):
        return "unnameable", path
    if inp and rp == os.path.realpath(inp):
        return "input", ""
    rr = os.path.realpath(root)
    cd = os.path.realpath(cmap_dir)
    if rp.startswith(cd + os.sep):
        return "pkg", os.path.relpath(rp, cd)
    if rp == rr or rp.startswith(rr + os.sep):
        rel = os.path.relpath(rp, rr)
        if rel.startswith("res" + os.sep):
            return "res", rel
        if rel == "out" or rel.startswith("out" + os.sep):
            return "out", rel
        return "root", rel
    if rp.endswith(CODE_EXT) and (rp.startswith(os.path.realpath(sys.prefix)) or rp.startswith(os.path.realpath(sys.base_prefix))
                                  or "/site-packages/" in rp or rp.startswith(os.path.dirname(cd))):
        return "code", rp
    return "outside", rp


def abstract_read(region, rel):
    """-> (dir tuple, file word) in the model's vocabulary"""
    if region == "pkg":
        d, f = ("@pkg",), rel
    elif region in ("res", "root", "out"):
        parts = rel.split(os.sep)
        d, f = tuple("sib" if x in fsdoc.SIB.values() else x for x in parts[:-1]), parts[-1]
    else:
        return (("@" + region,), rel)
    if f.endswith(".pickle.gz"):
        f = f[: -len(".pickle.gz")]
    return (d, f)


# ---------------------------------------------------------------------------------------------- TLC
def tlc_run(ck, label, consts, dev, emit, results, key):
    cfg = write_cfg(os.path.join(ck.tmp, "c15_%s.cfg" % key), constants=dict(consts, Dev=(tla_set(dev) if dev else "<- NoDev")),
                    invariants=INVARIANTS, constraints=["EmitTerminal"] if emit else [])
    try:
        results[key] = run_tlc(SPEC, cfg, emit=emit, coverage=True, workers=6, timeout=3600, allow_violation=False)
    except BaseException as e:
        results[key] = e


def direction_a(ck, dev):
    b = BOUNDS[ck.tier]
    spaces = [("cmap", {"MaxSeg": b["cmap"], "MaxSegImage": 0, "Names": "<- AllNames", "CMapSites": "<- AllCMapSites",
                        "ImageCases": "<- NoImageCases"}, ["AStart", "ATryDir"]),
              ("image", {"MaxSeg": 0, "MaxSegImage": b["image"], "Names": "<- ImageNames", "CMapSites": "<- NoSites",
                         "ImageCases": "<- " + b["image_cases"]}, ["AStart", "AExport"])]
    # names that go through the symbolic link inside the resource directory (and back up)
    spaces.append(("cmaplink", {"MaxSeg": 3, "MaxSegImage": 0, "Names": "<- LinkNames", "CMapSites": "<- AllCMapSites",
                                "ImageCases": "<- NoImageCases"}, ["AStart", "ATryDir"]))
    # names spelled with characters that only look like separators / dots (fullwidth, one dot leader, ligatures, overlong UTF-8)
    spaces.append(("imagelook", {"MaxSeg": 0, "MaxSegImage": b["look"], "Names": "<- LookNames", "CMapSites": "<- NoSites",
                                 "ImageCases": "<- LookImageCases" + ("Quick" if ck.tier == "quick" else "")}, ["AStart", "AExport"]))
    spaces.append(("cmaplook", {"MaxSeg": 0, "MaxSegImage": 2, "Names": "<- LookNames", "CMapSites": "<- AllCMapSites",
                                "ImageCases": "<- NoImageCases"}, ["AStart", "ATryDir"]))
    # long runs of occupied candidate names (name.ext, name.0.ext .. name.k.ext exist already)
    spaces.append(("imagerun", {"MaxSeg": 0, "MaxSegImage": 1, "Names": "<- ImageNamesRel", "CMapSites": "<- NoSites",
                                "ImageCases": "<- RunImageCases"}, ["AStart", "AExport"]))
    if ck.tier == "thorough":
        spaces.append(("imagemany", {"MaxSeg": 0, "MaxSegImage": 1, "Names": "<- OneName", "CMapSites": "<- NoSites",
                                     "ImageCases": "<- ManyImageCases"}, ["AStart", "AExport"]))
    # inline images that get the same name (one per page / page + form), empty and pre-populated directory
    spaces.append(("imageinline", {"MaxSeg": 0, "MaxSegImage": 1, "Names": "<- OneName", "CMapSites": "<- NoSites",
                                   "ImageCases": "<- InlineImageCases"}, ["AStart", "AExport"]))
    # every way the image dictionary's entries can fill the extension, XObject and inline images
    spaces.append(("imageext", {"MaxSeg": 0, "MaxSegImage": b["image_ext"], "Names": "<- ImageNamesRel", "CMapSites": "<- NoSites",
                                "ImageCases": "<- ExtImageCases"}, ["AStart", "AExport"]))
    if b["image_more"]:
        spaces.append(("imagemore", {"MaxSeg": 0, "MaxSegImage": b["image_more"], "Names": "<- ImageNames", "CMapSites": "<- NoSites",
                                     "ImageCases": "<- HalfImageCases"}, ["AStart", "AExport"]))
    if b["image_deep"]:
        spaces.append(("imagedeep", {"MaxSeg": 0, "MaxSegImage": b["image_deep"], "Names": "<- ImageNamesRel", "CMapSites": "<- NoSites",
                                     "ImageCases": "<- FewImageCases"}, ["AStart", "AExport"]))
    results = {}
    threads = []
    for name, consts, _ in spaces:
        for mode in (("intended", "coded") if dev else ("coded",)):      # no deviation in force: one machine only
            emit = os.path.join(ck.tmp, "c15_%s.ndjson" % name) if mode == "coded" else None
            th = threading.Thread(target=tlc_run, args=(ck, name, consts, dev if mode == "coded" else [], emit, results, name + "_" + mode))
            th.start()
            threads.append(th)
    for th in threads:
        th.join()
    for k, r in results.items():
        if isinstance(r, BaseException):
            raise r
    for name, consts, need in spaces:
        if dev:
            ck.add_tlc(results[name + "_intended"], "%s sites, names <= %s segments, intended design (Dev = {})" % (name, consts["MaxSeg"] or consts["MaxSegImage"]))
            require_coverage(results[name + "_intended"], need)
        ck.add_tlc(results[name + "_coded"], "%s sites, names <= %s segments, %s" % (name, consts["MaxSeg"] or consts["MaxSegImage"],
                                                                               "as coded (Dev = %s)" % dev if dev else "intended design = as coded (Dev = {})"))
        require_coverage(results[name + "_coded"], need)
    # ------------------------------------------------------------------ CMap sites
    by_site = {}
    n_emitted = 0
    image_cases = []
    seen_img = set()
    for name, _, _ in spaces:
        with open(os.path.join(ck.tmp, "c15_%s.ndjson" % name)) as f:
            for line in f:
                r = json.loads(line)
                n_emitted += 1
                if r["s"] == "image":
                    k = (r["n"]["abs"], tuple(r["n"]["segs"]), r["n"].get("look", "ascii"), tuple(sorted(r["ic"]["init"])), r["ic"]["draws"],
                         r["ic"]["ext"], r["ic"]["src"])
                    if k not in seen_img:
                        seen_img.add(k)
                        image_cases.append(r)
                    else:
                        n_emitted -= 1          # the deep space repeats some shallow cases
                elif name == "cmaplink":
                    # names through the symbolic link: once with CMAP_PATH naming the directory, once naming a link to it
                    if "lnk" in r["n"]["segs"]:
                        by_site.setdefault((r["s"], "res"), []).append(r)
                    else:
                        n_emitted -= 1          # (with the directory itself these names are in the main space already)
                    by_site.setdefault((r["s"], "reslnk"), []).append(r)
                    n_emitted += 1
                else:
                    by_site.setdefault((r["s"], "res"), []).append(r)
    if n_emitted == 0:
        raise MachineryError("no terminal states emitted")
    jobs = []
    batches = {}
    jid = 0
    for (site, via), recs in sorted(by_site.items()):
        recs.sort(key=lambda r: (len(r["n"]["segs"]), r["n"]["abs"], r["n"]["segs"]))
        for k in range(0, len(recs), BATCH):
            group = recs[k:k + BATCH]
            jobs.append(cmap_job(jid, site, group, via))
            batches[jid] = (site, group, via)
            jid += 1
    res, meta = run_workers(ck, jobs, "cmap")
    ck.extra["audit_subprocess_pdfminer"] = meta.get("pdfminer")
    retry = []
    drift = 0
    for j, (site, group, via) in batches.items():
        ok = judge_cmap(ck, site, group, res[j], meta, final=False, via=via)
        if not ok:
            retry.extend((site, [r], via) for r in group)
    if retry:
        jobs2, batches2 = [], {}
        for site, group, via in retry:
            jobs2.append(cmap_job(jid, site, group, via))
            batches2[jid] = (site, group, via)
            jid += 1
        res2, meta = run_workers(ck, jobs2, "cmap2")
        for j, (site, group, via) in batches2.items():
            if not judge_cmap(ck, site, group, res2[j], meta, final=True, via=via):
                drift += 1
    replayed = sum(len(g) for _, g, _ in batches.values())
    # ------------------------------------------------------------------ image site
    ijobs = []
    icases = {}
    for r in image_cases:
        ijobs.append(image_job(jid, r))
        icases[jid] = r
        jid += 1
    ires, meta = run_workers(ck, ijobs, "img")
    for j, r in icases.items():
        if not judge_image(ck, r, ires[j]):
            drift += 1
    replayed += len(icases)
    ck.replayed += replayed
    ck.extra["documents_realised"] = len(jobs) + len(ijobs) + (len(retry) if retry else 0)
    ck.extra["model_code_drift"] = drift
    if drift:
        ck.note("%d cases where the real code and the as-coded model disagree (spec/code drift)" % drift)


def cmap_job(jid, site, group, via="res"):
    """via: what CMAP_PATH names - the resource directory ("res") or a symbolic link to it ("reslnk")"""
    def fin(j):
        texts = [fsdoc.spell(r["n"], j["root"]) for r in group]
        j["pdf"] = base64.b64encode(fsdoc.cmap_doc(site, texts)).decode()
    return {"id": jid, "dirs": fsdoc.TREE_DIRS, "files": [[p, "pickle"] for p in fsdoc.TREE_PICKLES], "images": False,
            "symlinks": fsdoc.TREE_LINKS, "cmap_path": via, "finalise": fin}


def judge_cmap(ck, site, group, res, meta, final, via="res"):
    root = os.path.dirname(res["input"])
    predicted = set()
    blamed = False
    for r in group:
        for d, w in r["rd"]:
            predicted.add((tuple(d), w))
        blamed |= bool(r["bl"])
    observed = set()
    outside = []
    for e in res["events"]:
        if e["ev"] in ("os.listdir", "os.scandir", "os.walk", "os.fwalk", "glob.glob", "glob.glob/2"):
            # a directory listing: allowed only of a resource directory (or below it)
            reg, rel = region_of((e.get("real") or e.get("path") or ".") + "/.", root, res["input"], meta["cmap_dir"])
            real = e.get("real") or ""
            inside_res = real == os.path.realpath(meta["cmap_dir"]) or reg in ("res", "pkg") \
                or real == os.path.join(os.path.realpath(root), "res")
            if not inside_res and reg != "code":
                outside.append(("list", reg, rel))
            continue
        if e["ev"] != "open":
            outside.append(("event", e["ev"], str(e.get("args"))[:120]))
            continue
        reg, rel = region_of(e.get("real") or e["path"], root, res["input"], meta["cmap_dir"])
        if reg in ("input", "code"):
            continue
        if e.get("write"):
            outside.append(("write", reg, rel))
            continue
        a = abstract_read(reg, rel)
        observed.add(a)
        if reg not in ("res", "pkg"):
            outside.append(("read", reg, rel))
    if res["created"] or res["modified"] or res["deleted"]:
        outside.append(("tree-changed", "", str((res["created"], res["modified"], res["deleted"]))[:200]))
    same = observed == predicted
    if not same and not final:
        return False
    names = [r["n"] for r in group]
    for r in group:
        ck.case(1, ("cmap", site, r["n"]["abs"], tuple(r["n"]["segs"]), r["n"].get("look", "ascii")) if r["n"].get("look", "ascii") != "ascii" or any(s in ("dd", "e", "nul", "long", "dec", "sib", "ndd", "n0") for s in r["n"]["segs"]) or r["n"]["abs"] else None)
    if len(ck.samples) < 3 and observed:
        ck.sample({"site": site, "names": [fsdoc.seen_name(fsdoc.spell(n, "$ROOT")).replace("\0", "\\0")[:60] for n in names][:6],
                   "files_opened": sorted("/".join(d) + "/" + w for d, w in observed)})
    case = {"site": site, "via": via, "names": names, "observed_reads": sorted(map(str, observed)), "predicted_reads": sorted(map(str, predicted)),
            "other": outside[:5], "exception": res["exc"]}
    for kind, reg, rel in outside:
        if kind == "read" and same and blamed:
            report(ck, "dev:CMapNameUnconfined", "site %s: %s read outside the resource directories" % (site, rel), case)
        else:
            report(ck, "cmap:%s-outside:%s" % (kind, site), "site %s: %s %s (%s) although only the input and the character-map "
                         "resources may be touched" % (site, kind, rel, reg), case)
    if not same:
        ck.note("model/code drift at site %s name %r: opened %s, as-coded model %s" % (site, names[0], sorted(observed), sorted(predicted)))
    return same


def image_text(r, root):
    return fsdoc.spell(r["n"], root, "image")


def image_job(jid, r):
    init = r["ic"]["init"]
    draws = r["ic"]["draws"]

    def fin(j):
        doc_text = image_text(r, j["root"])
        text = fsdoc.seen_name(doc_text)
        if r["ic"].get("src", "xobj").startswith("inline"):
            text = "inline0"                            # the interpreter's name for the first inline image of a content stream
        # more than two exports: one per page of a many-pages document
        pdf, _ = fsdoc.image_doc(doc_text, draws if draws <= 2 or r["ic"].get("src", "xobj") != "xobj" else 1,
                                 pages=1 if draws <= 2 or r["ic"].get("src", "xobj") != "xobj" else draws,
                                 ext=r["ic"].get("ext", "bmp"), src=r["ic"].get("src", "xobj"))
        j["pdf"] = base64.b64encode(pdf).decode()
        pre = []
        for k in init:
            suffix = ("" if k < 0 else ".%d" % k) + (fsdoc.IMAGE_VARIANTS[r["ic"].get("ext", "bmp")][1] or EXT)
            pre.append(text + suffix)                       # where the name lands as coded (if that place exists)
            pre.append(fsdoc.sanitised(text) + suffix)      # where a confined implementation would put it
        j["prefiles"] = pre
    # (the decoy pickles matter at the CMap sites only; two are kept so that an overwrite / removal outside out would show)
    return {"id": jid, "dirs": fsdoc.TREE_DIRS, "files": [["dec/evil.pickle.gz", "pickle"], ["out_evil/evil.pickle.gz", "pickle"]],
            "images": True, "finalise": fin}


def judge_image(ck, r, res):
    root = os.path.dirname(res["input"])
    text = fsdoc.seen_name(image_text(r, root))       # the name as the library's literal_name() hands it on
    init, draws = r["ic"]["init"], r["ic"]["draws"]
    # ---- the property's predicates on the real run
    created = res["created"]
    blocked = [e for e in res["events"] if e.get("blocked")]
    # (the sandbox stops a write above the scratch root before the kernel sees it; a name the kernel would have
    #  refused as too long creates nothing)
    wouldfail = [e for e in blocked if e.get("would", "create") != "create"]
    blocked = [e for e in blocked if e not in wouldfail]
    overw = [e for e in res["events"] if e["ev"] == "open" and e.get("write") and e.get("existed")]
    other = [e for e in res["events"] if e["ev"] != "open" and e["ev"] != "os.mkdir"]
    reads = []
    for e in res["events"]:
        if e["ev"] == "open" and not e.get("write"):
            reg, rel = region_of(e.get("real") or e["path"], root, res["input"], "/nonexistent")
            if reg not in ("input", "code"):
                reads.append((reg, rel))
    outside = [c for c in created if not c.startswith("out" + os.sep)]
    # ---- the as-coded model's prediction
    if "ImageNameUnconfined" in CODED_DEV:
        base = text.split("/")[-1] if r["n"]["segs"] or r["n"]["abs"] else ""
    else:
        base = fsdoc.sanitised(text)                 # the intended design: separators and NUL replaced
    ext_kind, src = r["ic"].get("ext", "bmp"), r["ic"].get("src", "xobj")
    ext_text = fsdoc.IMAGE_VARIANTS[ext_kind][1]
    pred_created, pred_above = set(), 0
    for c in r["cr"]:
        if src.startswith("inline"):
            base = "inline%d" % c.get("w", 0)          # the interpreter numbers the inline images of one content stream
        if ext_text is None:
            # an ill-typed entry in the extension (only reachable with ExtFieldsUnvalidated): the text after the last separator
            fn = {"illclean": base + ".[1, 2].1x1.img", "lead1": "'pwned'.1x1.img"}.get(ext_kind, "?")
        else:
            fn = base + ("" if c["k"] < 0 else ".%d" % c["k"]) + ext_text
        if c["dir"] == ["@above"]:
            pred_above += 1
        else:
            cdir = [fsdoc.SIB["image"] if x == "sib" else x for x in c["dir"]]
            pred_created.add(os.path.join(*(cdir + [fn])) if cdir else fn)
    pred_err = None if r["er"] == "none" else r["er"]
    real_err = res["exc"]
    if wouldfail and real_err == "PermissionError":
        real_err = wouldfail[0]["would"]
    if blocked:
        # the sandbox stopped the first write above the scratch root (and with it the extraction)
        same = set(created) <= pred_created and pred_above >= 1
    else:
        same = set(created) == pred_created and pred_above == 0 and (real_err or None) == pred_err
    hostile = r["n"]["abs"] or any(s in ("dd", "e", "nul", "long", "dec", "sub", "d", "sib", "ndd", "n0") for s in r["n"]["segs"]) or len(r["n"]["segs"]) != 1
    hostile = hostile or ext_kind not in ("bmp", "raw") or r["n"].get("look", "ascii") != "ascii" or src != "xobj"
    ck.case(1, ("image", r["n"]["abs"], tuple(r["n"]["segs"]), r["n"].get("look", "ascii"), tuple(init), draws, ext_kind, src) if hostile or init else None)
    case = {"site": "image", "name": r["n"], "init": init, "draws": draws, "ext": ext_kind, "src": src, "created": created, "modified": res["modified"],
            "deleted": res["deleted"], "blocked_outside_scratch": [e.get("path") for e in blocked], "exception": res["exc"],
            "model_created": sorted(pred_created), "model_error": pred_err}
    if len(ck.samples) < 6 and created and hostile:
        ck.sample({"site": "image", "name": text.replace(root, "$ROOT").replace("\0", "\\0")[:80], "pre-existing": init, "exports": draws,
                   "files_created": created})
    if outside or blocked:
        if same and r["bl"]:
            report(ck, "dev:" + "+".join(sorted(r["bl"])), "image named %r exported to %s" % (text.replace(root, "$ROOT")[:60], (outside or ["above the scratch root"])[0]), case)
        else:
            report(ck, "image:write-outside", "image named %r: file created outside the output directory: %s"
                         % (text.replace(root, "$ROOT")[:60], outside or blocked), case)
    if res["modified"] or overw:
        report(ck, "image:overwrite", "image named %r with pre-existing %r: an existing file was opened for writing / changed: %s"
                     % (text.replace(root, "$ROOT")[:60], init, res["modified"] or [e["path"] for e in overw]), case)
    if res["deleted"] or other:
        report(ck, "image:mutation", "image export removed/renamed files: %s %s" % (res["deleted"], [e["ev"] for e in other]), case)
    if res["exc"] is None and (len(set(res["exports"])) != len(res["exports"]) or len(created) != len(res["exports"])):
        report(ck, "image:duplicate-name", "%d exports produced %d files (%r)" % (len(res["exports"]), len(created), res["exports"]), case)
    for reg, rel in reads:
        report(ck, "image:read:" + reg, "image export read %s" % rel, case)
    if not same:
        ck.note("model/code drift at the image site, name %r init %r draws %d: created %s error %s, as-coded model %s error %s"
                % (r["n"], init, draws, created, res["exc"], sorted(pred_created), pred_err))
    return same


# ---------------------------------------------------------------------------------------------- direction B
def direction_b(ck, dev):
    rng = random.Random(ck.seed + 15)
    files = sorted(glob.glob("/repo/samples/**/*.pdf", recursive=True))
    if not files:
        raise MachineryError("no repository samples")
    if ck.tier == "quick":
        must = [f for f in files if any(x in f for x in ("jbig2", "dmca", "simple4", "simple3", "kampo", "aes-128", "nlp2004"))]
        rest = [f for f in files if f not in must]
        files = must + rng.sample(rest, min(8, len(rest)))
    jobs = []
    pw = {"encryption": "foo"}
    for k, fn in enumerate(files):
        kwargs = {}
        if "/encryption/" in fn:
            kwargs["password"] = "usersecret" if "r6" in fn else "" if "no_id" in fn else "foo"
        if ck.tier == "quick":
            kwargs["maxpages"] = 3

        def fin(j):
            pass
        jobs.append({"id": k, "dirs": ["res", "dec"], "files": [["dec/evil.pickle.gz", "pickle"]], "images": True, "pdf_path": fn,
                     "kwargs": kwargs, "finalise": fin})
    res, meta = run_workers(ck, jobs, "b")
    traces = []
    for k, fn in enumerate(files):
        r = res[k]
        case_root = jobs[k]["root"]
        evs = []
        for e in r["events"]:
            kind = {"open": "write" if e.get("write") else "read", "os.mkdir": "mkdir", "os.listdir": "list", "os.scandir": "list"}.get(e["ev"], "other:" + e["ev"])
            path = e.get("path") if e["ev"] == "open" else (e.get("args") or [None])[0]
            if not isinstance(path, str):
                path = repr(path)
            if kind == "list":
                path = e.get("real") or e.get("path") or path
                rp = os.path.realpath(path)
                if rp.startswith((os.path.realpath(sys.prefix), os.path.realpath(sys.base_prefix))) or "/site-packages" in rp \
                        or rp.startswith(os.path.dirname(os.path.realpath(meta["cmap_dir"]))) and rp != os.path.realpath(meta["cmap_dir"]):
                    reg, rel = "code", rp                    # the import system listing a package directory
                else:
                    reg, rel = region_of(os.path.join(rp, "x"), case_root, fn, meta["cmap_dir"])
            else:
                reg, rel = region_of(path, case_root, fn, meta["cmap_dir"])
            reg = {"pkg": "res", "root": "outside", "unnameable": "outside"}.get(reg, reg)
            evs.append({"k": kind, "region": reg, "existed": bool(e.get("existed")), "path": rel if reg == "out" else path})
        traces.append({"name": os.path.relpath(fn, "/repo"), "events": evs, "exc": r["exc"] or "none", "created": r["created"]})
        ck.case(1, ("b", fn) if evs else None)
        if r["modified"] or r["deleted"] or [c for c in r["created"] if not c.startswith("out" + os.sep)]:
            report(ck, "b:tree-changed", "extraction of %s changed files outside the output directory: %s"
                         % (fn, (r["created"], r["modified"], r["deleted"])), {"sample": fn})
    tf = os.path.join(ck.tmp, "c15_traces.json")
    verdicts = run_trace_spec(ck, traces, tf, "audit traces of extraction with output_dir over %d repository samples" % len(traces))
    acc = 0
    for tr, v in zip(traces, verdicts):
        if v["ok"]:
            acc += 1
        else:
            ev = tr["events"][v["i"]]
            report(ck, "trace:%s:%s" % (ev["k"], ev["region"]), "extraction of %s: audit event #%d %r is not allowed by FsTrace"
                         % (tr["name"], v["i"] + 1, ev), {"sample": tr["name"], "event": ev})
    ck.traces += acc
    ck.extra["trace_events"] = sum(len(t["events"]) for t in traces)
    ck.extra["trace_files_created"] = sum(len(t["created"]) for t in traces)
    with_img = next((t for t in traces if any(e["k"] == "write" for e in t["events"])), None)
    if with_img is None:
        raise MachineryError("no sample trace contains an image export: direction B would be vacuous")
    if len(ck.samples) < 8:
        ck.sample({"trace": with_img["name"], "events": with_img["events"][:6]})
    # corrupt one recorded field: must be rejected
    import copy
    muts = []
    a = copy.deepcopy(with_img)
    next(e for e in a["events"] if e["k"] == "write")["region"] = "outside"
    muts.append(("region of one created file -> outside", a))
    b2 = copy.deepcopy(with_img)
    next(e for e in b2["events"] if e["k"] == "write")["existed"] = True
    muts.append(("created file marked as pre-existing", b2))
    c = copy.deepcopy(with_img)
    w = next(e for e in c["events"] if e["k"] == "write")
    c["events"].append(dict(w))
    muts.append(("same file created twice", c))
    with_read = next((t for t in traces if any(e["k"] == "read" for e in t["events"])), None)
    if with_read is None:
        raise MachineryError("no sample trace contains a resource read: direction B would be vacuous")
    d = copy.deepcopy(with_read)
    next(e for e in d["events"] if e["k"] == "read")["region"] = "outside"
    muts.append(("region of one file read -> outside", d))
    vs = run_trace_spec(ck, [m[1] for m in muts], tf, None)
    bad = [w for (w, _), v in zip(muts, vs) if v["ok"]]
    if bad:
        raise MachineryError("trace spec is vacuous: corrupted traces accepted: %s" % bad)
    ck.extra["corrupted_traces_rejected"] = [w for w, _ in muts]


def run_trace_spec(ck, traces, tf, label):
    cfg = write_cfg(os.path.join(ck.tmp, "c15_trace.cfg"), spec="Spec", invariants=["CreatedInsideOut"], deadlock=True)
    with open(tf, "w") as f:
        json.dump(traces, f)
    emit = os.path.join(ck.tmp, "c15_trace_out.ndjson")
    res = run_tlc(TRACE_SPEC, cfg, workers=1, env={"TRACE_FILE": tf}, timeout=1800, emit=emit, allow_violation=False)
    if label:
        ck.add_tlc(res, label)
    verdicts = {}
    for line in open(emit):
        r = json.loads(line)
        verdicts[r["t"]] = r
    if sorted(verdicts) != list(range(1, len(traces) + 1)):
        raise MachineryError("trace validation gave %d verdicts for %d traces" % (len(verdicts), len(traces)))
    return [verdicts[k] for k in range(1, len(traces) + 1)]


def run(ck):
    dev = active("fs")
    CODED_DEV[:] = dev
    ck.extra["deviations_modelled_as_coded"] = dev
    ck.rule = ("A: every name of <= N segments over {H, dec, evil, sub, zz, '..', '.', empty, NUL-containing, over-long} x {relative, "
               "absolute} at each CMap lookup site (16 names per document), and at the image-name site x every set of pre-existing "
               "candidate files x 1-2 exports, each run under an audit hook in a scratch tree with decoys; non-trivial = the name "
               "is not a single plain word (or files pre-exist); distinct by (site, name, pre-existing set, exports). "
               "B: one case per repository sample extracted with output_dir.")
    ck.assumptions = ["the kernel's path resolution is modelled for a tree without symbolic links",
                      "CMAP_PATH counts as one of the library's resource directories",
                      "interpreter opens of its own modules (.py/.pyc/.so under the Python installation or the package) are not document-steered and are ignored",
                      "os.stat/os.path.exists probes are not 'opening a file' (no audit event exists for them)"]
    direction_a(ck, dev)
    direction_b(ck, dev)
    ck.exhaustive = True


def replay(path):
    from ..core import Check
    doc = json.load(open(path))
    case = unjson(doc["case"])
    ck = Check("C15-replay")
    try:
        if case.get("site") == "image":
            r = {"n": case["name"], "ic": {"init": case["init"], "draws": case["draws"], "ext": case.get("ext", "bmp"),
                                           "src": case.get("src", "xobj")}, "cr": [], "er": "none", "bl": []}
            res, meta = run_workers(ck, [image_job(0, r)], "replay", nproc=1)
            out = res[0]
            print("created:", out["created"], "modified:", out["modified"], "exception:", out["exc"],
                  "stopped above the scratch root:", [e.get("path") for e in out["events"] if e.get("blocked") and e.get("would") == "create"])
            bad = bool([c for c in out["created"] if not c.startswith("out/")] or out["modified"] or out["deleted"]
                       or [e for e in out["events"] if e.get("blocked") and e.get("would", "create") == "create"])
        elif "names" in case:
            group = [{"n": n, "rd": [], "bl": []} for n in case["names"]]
            res, meta = run_workers(ck, [cmap_job(0, case["site"], group, case.get("via", "res"))], "replay", nproc=1)
            out = res[0]
            root = os.path.dirname(out["input"])
            bad = False
            for e in out["events"]:
                if e["ev"] == "open":
                    reg, rel = region_of(e.get("real") or e["path"], root, out["input"], meta["cmap_dir"])
                    print("open", reg, rel, "write" if e.get("write") else "read")
                    bad |= reg not in ("input", "code", "res", "pkg")
        else:
            print("replay of a sample trace: run  bin/check C15")
            bad = True
    finally:
        import shutil
        shutil.rmtree(ck.tmp, ignore_errors=True)
    if bad:
        print("VIOLATION property=C15 replay=%s" % path)
    return 1 if bad else 0
