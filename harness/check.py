"""bin/check entry point:  check <ID> [--tier quick|thorough] [--replay <path>]"""
import argparse
import importlib
import os
import sys

from .core import Check, main_wrapper


def main():
    ap = argparse.ArgumentParser()
    ap.add_argument("pid")
    ap.add_argument("--tier", default=os.environ.get("VERIF_TIER", "quick"), choices=["quick", "thorough"])
    ap.add_argument("--replay", default=None)
    ap.add_argument("--seed", default=os.environ.get("VERIF_SEED", "0"))
    a = ap.parse_args()
    try:
        seed = int(a.seed)
    except ValueError:
        seed = 0
    os.environ.setdefault("PDFMINER_VERIF", "1")
    if os.environ.get("VERIF_COVERAGE"):
        from . import cov
        os.environ.setdefault("VERIF_COVERAGE_TAG", a.pid.upper())
        cov.start()
    mod = importlib.import_module("harness.props." + a.pid.lower())

    def go():
        if a.replay:
            return mod.replay(a.replay)
        ck = Check(a.pid.upper(), a.tier, seed, level=getattr(mod, "LEVEL", "model_checking"))
        mod.run(ck)
        return ck.finish()

    main_wrapper(go)


if __name__ == "__main__":
    main()
